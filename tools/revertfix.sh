#!/bin/sh
# tools/revertfix.sh <commit> <Cxx> [<Cyy> ...] [-- extra check args]
# Sensitivity validation of a recorded 'fixed:' finding: a scratch worktree of /repo's HEAD with
# that one 'fix:' commit reverted (nothing is committed anywhere), the named checks run against
# it through VERIF_REPO.  A check that stays silent there cannot see the defect the fix repaired.
# The worktree and the cache of the reverted tree are removed afterwards.
commit="$1"; shift
props=""
while [ $# -gt 0 ] && [ "$1" != "--" ]; do props="$props $1"; shift; done
[ "$1" = "--" ] && shift
wt="/tmp/revert_$commit"
git -C /repo worktree remove --force "$wt" >/dev/null 2>&1
git -C /repo worktree add -q --detach "$wt" HEAD || exit 2
( cd "$wt" && git revert -n "$commit" >/dev/null 2>&1 ) || { echo "$commit: revert does not apply cleanly"; git -C /repo worktree remove --force "$wt"; exit 2; }
cd /verif || exit 2
h=$(VERIF_REPO="$wt" /venv/bin/python -c "from vmon import env; print(env.repo_hash())")
for p in $props; do
  VERIF_REPO="$wt" ./check "$p" "$@" > "/tmp/revert_${commit}_$p.out" 2>&1
  rc=$?
  echo "$commit $p exit=$rc violations=$(grep -c '^VIOLATION' /tmp/revert_${commit}_$p.out) known=$(grep -c '^KNOWN-FINDING' /tmp/revert_${commit}_$p.out)"
  grep -A1 '^VIOLATION' "/tmp/revert_${commit}_$p.out" | grep '^   ' | cut -c1-220 | head -3
done
rm -rf "/verif/.cache/$h"
git -C /repo worktree remove --force "$wt"
