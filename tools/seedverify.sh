#!/bin/sh
# tools/seedverify.sh <id>: confirm a seeded change independently in a fresh scratch worktree:
# demo passes without it, fails with it, pinned tests pass with it.
id="$1"; src="${2:-/tmp/seeds/$id}"; wt="/tmp/ver_$id"
git -C /repo worktree remove --force "$wt" >/dev/null 2>&1
git -C /repo worktree add -q "$wt" HEAD || exit 2
cd "$wt" || exit 2
PYTHONPATH="$wt" MPLBACKEND=Agg timeout 1800 /venv/bin/python "$src/demo.py" > "$src/verify_demo_clean.log" 2>&1; c=$?
git apply "$src/patch.diff" || { echo "$id: patch does not apply"; exit 2; }
PYTHONPATH="$wt" MPLBACKEND=Agg timeout 1800 /venv/bin/python "$src/demo.py" > "$src/verify_demo_seeded.log" 2>&1; s=$?
PYTHONPATH="$wt" /venv/bin/python -m pytest hypnotoad/test_suite -q -p no:cacheprovider -n 4 --timeout=900 > "$src/verify_pytest_seeded.log" 2>&1; t=$?
echo "$id: demo clean exit=$c (want 0), demo seeded exit=$s (want !=0), pytest seeded exit=$t (want 0): $(tail -1 $src/verify_pytest_seeded.log)"
cd /; git -C /repo worktree remove --force "$wt"
