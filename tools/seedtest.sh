#!/bin/sh
# tools/seedtest.sh <patch.diff> <Cxx> [<Cyy> ...]: apply a seeded change to /repo, run the quick checks, undo it.
patch="$1"; shift
cd /repo || exit 2
if [ -n "$(git status --porcelain --untracked-files=no)" ]; then echo "/repo is not clean"; exit 2; fi
git apply "$patch" || { echo "patch does not apply"; exit 2; }
trap 'git -C /repo checkout -- . ' EXIT INT TERM
cd /verif
for p in "$@"; do
  ./check "$p" > /tmp/seed_$p.out 2>&1
  echo "== $p exit=$? violations=$(grep -c '^VIOLATION' /tmp/seed_$p.out)"
  grep -A1 '^VIOLATION' /tmp/seed_$p.out | grep '^   ' | cut -c1-260 | head -6
  grep '^INCONCLUSIVE' /tmp/seed_$p.out | head -3 | cut -c1-200
done
