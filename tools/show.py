#!/venv/bin/python
"""tools/show.py Cxx [pred-substring]: per predicate and per case, worst margin, from the cache."""
import sys, json, glob, os
sys.path.insert(0, os.path.dirname(os.path.dirname(os.path.abspath(__file__))))
from vmon import env
env.setup_paths()
from vmon import orchestrate
prop = sys.argv[1]
sub = sys.argv[2] if len(sys.argv) > 2 else ""
root = orchestrate.cache_root()
rows = {}
for d in sorted(glob.glob(os.path.join(root, "case", "*"))):
    mp = os.path.join(d, "mon_%s.json" % prop)
    if not os.path.exists(mp):
        continue
    spec = json.load(open(os.path.join(d, "spec.json")))
    m = json.load(open(mp))
    if m.get("error"):
        print("ERROR in", spec.get("tag"), m["error"].strip().splitlines()[-1])
    for r in m.get("records", []):
        if sub in r["pred"]:
            rows.setdefault(r["pred"], []).append((spec.get("tag") or spec.get("kind"), r))
for pred, lst in rows.items():
    print(pred)
    for tag, r in lst:
        mg = r.get("margin")
        print("    %-22s %-34s n=%-6d worst=%-11.4g thr=%-9.3g %s %s" % (tag, r["cls"], r["n"], r["worst"] if r["worst"] is not None else float("nan"), r["thr"] if r["thr"] is not None else float("nan"), "ok  " if r["ok"] else "FAIL", (r.get("sig") or "")[:80]))
