#!/bin/sh
# tools/seedtest_wt.sh <patch.diff> <Cxx> [<Cyy> ...] [-- extra check args]
# Like seedtest.sh, but the seeded change is applied in a scratch worktree of /repo's HEAD and the
# checks run against it through VERIF_REPO, so /repo itself stays untouched (usable while other
# runs read /repo).  The worktree and the cache of the changed tree are removed afterwards.
patch="$(readlink -f "$1")"; shift
props=""
while [ $# -gt 0 ] && [ "$1" != "--" ]; do props="$props $1"; shift; done
[ "$1" = "--" ] && shift
tag=$(echo "$patch" | md5sum | cut -c1-8)
wt="/tmp/seedwt_$tag"
git -C /repo worktree remove --force "$wt" >/dev/null 2>&1
git -C /repo worktree add -q --detach "$wt" HEAD || exit 2
git -C "$wt" apply "$patch" || { echo "patch does not apply"; git -C /repo worktree remove --force "$wt"; exit 2; }
cd /verif || exit 2
h=$(VERIF_REPO="$wt" /venv/bin/python -c "from vmon import env; print(env.repo_hash())")
for p in $props; do
  VERIF_REPO="$wt" ./check "$p" "$@" > "/tmp/seedwt_${tag}_$p.out" 2>&1
  echo "== $p exit=$? violations=$(grep -c '^VIOLATION' /tmp/seedwt_${tag}_$p.out) (output /tmp/seedwt_${tag}_$p.out)"
  grep -A1 '^VIOLATION' "/tmp/seedwt_${tag}_$p.out" | grep '^   ' | cut -c1-260 | head -6
  grep '^INCONCLUSIVE' "/tmp/seedwt_${tag}_$p.out" | head -3 | cut -c1-200
done
rm -rf "/verif/.cache/$h"
git -C /repo worktree remove --force "$wt"
