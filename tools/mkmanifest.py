#!/venv/bin/python
"""Writes /verif/MANIFEST.json from one table (keeps the 20 entries consistent)."""
import json, os
ROOT = os.path.dirname(os.path.dirname(os.path.abspath(__file__)))
T = {
 "C01": ("exploration", "psi of the interpolated equilibrium evaluated by an offline monitor at every point (centre, xlow, ylow, four corner arrays; in memory and in the written file) of every generated grid of the corpus against the region's radial psi value and psixy; pinned corners counted; online post-condition on every refinePoint call", "offline checker over captured grids + online contract on refinePoint"),
 "C02": ("exploration", "3x3 inverse product, Jacobian identities and closed forms (non-orthogonality angle measured by the oracle) at every centre/xlow/ylow point; sign-convention-free displacement products and Simpson's rule against zShift decide the signs", "offline checker over captured grids with independent finite-difference oracle"),
 "C03": ("exploration", "every Brxy/Bzxy/Bpxy/Btxy/Bxy/pressure value and the scalars compared with finite differences of the interpolant and the analytic profiles of the family, all sign combinations, profile options, geqdsk and array input", "offline checker over captured grids with analytic-family oracle"),
 "C04": ("exploration", "for every poloidal index of every region of every orthogonal grid an independent DOP853 integration of grad(psi)/|grad psi|^2 from the skeleton point across the region, distance to every grid point of that index; online contract on followPerpendicular", "offline checker (own ODE integration) + online contract"),
 "C05": ("exploration", "arc length between consecutive grid points recomputed by the oracle on every contour of every region and compared with hy*dy, poloidal_distance (increments, continuity, origin) and total_poloidal_distance; Nfine ladder in the thorough tier", "offline checker with own arc-length oracle + online contract on get_distance"),
 "C06": ("exploration", "field-line integral of Bt/(R|Bp|) recomputed by the oracle along every chain of y-connected regions and compared with zShift at all four locations, ShiftAngle, 2*pi*q for the circular case; dphidy and ShiftTorsion identities", "offline checker with own field-line integrator"),
 "C07": ("exploration", "curl(b/B) recomputed by Richardson finite differences of the vector field and projected on grad x, grad y (built geometrically), grad z at every point; both curvature_type forms; circular, tokamak, both modes", "offline checker with independent finite-difference curl"),
 "C08": ("exploration", "structural checks of regions/connections/groups in memory; BOUT++'s neighbour map built from the file's topology integers (own implementation incl. BoutMesh::load resets) against the corner arrays of every cell; ordering constraints; y-coord/theta/chi", "offline checker with independent BOUT++ index oracle + online contract on makeConnection"),
 "C09": ("exploration", "seeded unit drive of the radial spacing function over all five branches and both sides of every switch with post-conditions on the real function; radial grid of every generated grid incl. requested limits resolved independently; online contract pairing the gradients either side of each separatrix", "online contracts on the real functions driven by seeded random parameters + offline grid monitor"),
 "C10": ("exploration", "seeded unit drive of the sqrt/monotonic/linear constructors and of the guarded entry point over methods x region kinds x guards; end values, monotonicity on the used index range, end gradients, continuity of the guard-cell extrapolation; online contracts during every grid generation (spacing functions, N_norm, getRegridded end points)", "online contracts on the real functions driven by seeded random parameters"),
 "C11": ("exploration", "target points, inside/outside classification of every y-face and penalty_mask of every cell recomputed in exact rational arithmetic; wall output compared with the input; online contracts on _find_intersection / addPointAtWallToContours", "offline checker with exact-arithmetic geometry + online contracts"),
 "C12": ("exploration", "file validator on every written grid; ~40 (quick) / ~110 (thorough) hostile inputs through the API and the command-line entry points whose outcome must be an exception or a valid file, with must-be-rejected inputs checked to be rejected; every shipped example / reference option file", "runtime monitoring of hostile and shipped executions with a file validator oracle"),
 "C13": ("fault_enumeration", "recorded histories of ParallelMap calls checked against list(map(f,args)): all n! completion orders for n<=3 (quick) / 4 (thorough) induced by delays, a failing task at every position for n<=4 (quick) / 8 (thorough) with picklable and unpicklable exceptions, second call after a failure, hang decided by state; full grids np=1 vs np>1 with injected delays compared bitwise", "history + executable sequential model; fault injection at every task position"),
 "C14": ("exploration", "differential experiments: same spec twice in one process and in two processes, build after an unrelated build, caller's arrays compared with copies plus a read-only run for every sign/scale option, CLI -> recreate-inputs -> CLI loop; bitwise comparison of every numeric variable", "differential checker over pairs/histories of executions"),
 "C15": ("exploration", "histories of 1..3 (quick) / 1..4 (thorough) redistributePoints calls incl. returning to and repeating a setting, followed by geometry(), compared with a fresh build with the final settings; settings unchanged; stale-cache probe on contour distances", "differential checker: regrid history vs fresh build"),
 "C16": ("exploration", "pairs of full grids: equilibrium vs mirror image region by region with y reversed (own contour points, join faces and guard cells reported separately), symmetric double null with itself, psi/fpol sign reversal and 2*pi scaling directly vs through the options", "differential checker over pairs of executions"),
 "C17": ("exploration", "seeded random data sets through the real writer and reader, an independent fixed-width parser on the written text, separator-free Fortran text fed to the real reader, read_geqdsk's axis/psi/profile/wall mapping on analytic equilibria with nR != nZ", "round-trip contract + independent reference parser"),
 "C18": ("exploration", "node reproduction, every exposed derivative function against Richardson finite differences of the function it differentiates at random interior points, div B, fpolprime for both orderings of psi1D, three argument forms, agreement with the analytic family, both interpolation methods", "online post-conditions with finite-difference oracle on seeded analytic inputs"),
 "C19": ("exploration", "find_critical and TokamakEquilibrium's selections against the critical points of the analytic flux function (multi-start Newton on the analytic gradient, Hessian classification); psinorm_sol probed either side of the second X-point; leg labelling", "differential check against an analytic critical-point oracle"),
 "C20": ("exploration", "every ordered point pair of an NxN lattice as a segment against five closed polylines in four metamorphic variants, decided in exact rational arithmetic (exhaustive), plus seeded random coordinates for find_intersections/wallIntersection, polygons.area/clockwise/intersect (closed and open), closest_approach", "exhaustive small-lattice enumeration + random drive against exact rational arithmetic"),
}
checks = []
for pid in sorted(T):
    cat, text, tech = T[pid]
    checks.append({
        "property_id": pid,
        "quick_cmd": "./check %s --tier quick" % pid,
        "thorough_cmd": "./check %s --tier thorough" % pid,
        "evidence_file": "evidence/%s.json" % pid,
        "replay_cmd_template": "./check %s --replay {path}" % pid,
        "engine": "vmon",
        "level_claimed": {"category": cat, "text": text, "design_ref": "DESIGN.md section 5, %s" % pid},
        "level_note": "held on the executions listed in the evidence file, never 'verified'; eq.psi (the interpolated equilibrium) and the oracles in vmon/ are the trusted base; known findings are listed in known_findings.json",
        "technique": "runtime monitoring: " + tech,
    })
m = {
 "version": 1,
 "setup_cmd": "cd /verif && /venv/bin/python -c \"import sys; sys.path.insert(0,'/verif'); from vmon import env; sys.exit(0 if env.ensure_deps(verbose=True) else 1)\" && /venv/bin/python -m compileall -q vmon",
 "hooks": {
  "guard": "HYPNOTOAD_VERIF",
  "enable": "no source hooks: all monitors wrap the real functions from the harness (vmon/contracts_impl.py) inside the per-case process; HYPNOTOAD_VERIF=1 is exported by the checks and read by nothing in /repo",
  "baseline_off_cmd": "cd /repo && /venv/bin/python -m pytest -ra -q -p no:cacheprovider --timeout=900 --continue-on-collection-errors",
  "source_commits": [],
  "add_only": True
 },
 "engines": [{"name": "vmon", "path": "vmon/", "serves_properties": sorted(T), "kind_free_text": "runtime monitors written for this code base: online contracts on the real functions, offline checkers over captured executions (grid file + in-memory objects) with independent oracles, differential checkers over pairs/histories of executions, a history checker for ParallelMap"}],
 "checks": checks,
 "not_applicable": [],
 "notes": "Compiler sanitizers, valgrind and race detectors have no target (pure Python; see DESIGN.md section 1). Every check rebuilds from /repo's working tree: results are cached under .cache keyed on a content hash of /repo/hypnotoad, the examples and option files, so any source edit recomputes. ./check exits 0 held / 1 violation / 2 inconclusive. fix: commits in /repo are recorded in known_findings.json."
}
json.dump(m, open(os.path.join(ROOT, "MANIFEST.json"), "w"), indent=1)
print("wrote MANIFEST.json with", len(checks), "checks")
