"""Runs ONE case in its own process.

    python -m vmon.runcase <casedir> [--monitors C01,C02,...]

<casedir>/spec.json is the input.  Stage 1 (generation) writes gen.json, grid.nc and
capture.dill; stage 2 runs the requested offline monitors on the capture and writes
mon_<Cxx>.json.  Both stages are skipped when their output already exists, so the
orchestrator can call this repeatedly.
"""

import json
import os
import sys
import time
import traceback

from . import env

env.setup_paths()

import numpy as np  # noqa: E402

np.seterr(all="ignore")


def _jsonable(o):
    if isinstance(o, (np.floating,)):
        return float(o)
    if isinstance(o, (np.integer,)):
        return int(o)
    if isinstance(o, np.bool_):
        return bool(o)
    if isinstance(o, np.ndarray):
        return o.tolist()
    if isinstance(o, (set, tuple)):
        return list(o)
    return str(o)


def dump_json(path, obj):
    tmp = path + ".tmp%d" % os.getpid()
    with open(tmp, "w") as f:
        json.dump(obj, f, default=_jsonable, indent=1)
    os.replace(tmp, path)


class Capture:
    """What the monitors see: the spec, the live objects, the file read back."""

    def __init__(self, casedir, spec, eq=None, mesh=None, fam=None, inputs=None, gen=None, extra=None):
        self.casedir = casedir
        self.spec = spec
        self.eq = eq
        self.mesh = mesh
        self.fam = fam
        self.inputs = inputs
        self.gen = gen or {}
        self.extra = extra or {}
        self._nc = None

    @property
    def ncpath(self):
        return os.path.join(self.casedir, "grid.nc")

    @property
    def nc(self):
        if self._nc is None:
            self._nc = load_nc(self.ncpath)
        return self._nc

    @property
    def opts(self):
        return self.mesh.user_options


def load_nc(path):
    from netCDF4 import Dataset

    out = {"__attrs__": {}, "__dims__": {}, "__strings__": {}}
    with Dataset(path) as ds:
        ds.set_auto_mask(False)
        for a in ds.ncattrs():
            out["__attrs__"][a] = ds.getncattr(a)
        for name, var in ds.variables.items():
            if var.dtype is str or var.dtype.kind in "SU":
                try:
                    val = var[...]
                    if isinstance(val, np.ndarray) and val.dtype.kind == "S":
                        val = b"".join(val.tolist()).decode()
                    out["__strings__"][name] = val if isinstance(val, str) else str(val)
                except Exception as e:  # pragma: no cover
                    out["__strings__"][name] = "<unreadable %s>" % e
                continue
            arr = np.array(var[...])
            out[name] = arr
            out["__dims__"][name] = tuple(var.dimensions)
    return out


def _terminate_parallel_maps(mesh):
    seen = set()
    for r in getattr(mesh, "regions", {}).values():
        pm = getattr(r, "parallel_map", None)
        if pm is not None and id(pm) not in seen:
            seen.add(id(pm))
            if getattr(pm, "workers", None):
                for w in pm.workers:
                    try:
                        w.terminate()
                        w.join(5)
                    except Exception:
                        pass
                pm.workers = None
                # serial fall-back attributes so the object stays usable / picklable
                pm.task_queue = None
                pm.result_queue = None
                pm.equilibrium = mesh.equilibrium
                pm.psi = mesh.equilibrium.psi
                pm.f_R = mesh.equilibrium.f_R
                pm.f_Z = mesh.equilibrium.f_Z


class _CliDone(Exception):
    pass


def cli_case(spec, casedir, build):
    """Runs a real command-line entry point; the grid it writes becomes grid.nc."""
    import shutil

    import yaml

    kind = spec["kind"]
    work = os.path.join(casedir, "cli")
    shutil.rmtree(work, ignore_errors=True)
    os.makedirs(work)
    ytext = spec.get("yaml_text")
    if ytext is None and spec.get("yaml_file"):
        with open(os.path.join(env.REPO, spec["yaml_file"])) as f:
            ytext = f.read()
    if ytext is None:
        ytext = yaml.safe_dump(spec.get("opts", {}))
    extra = spec.get("yaml_update")
    if extra:
        dct = yaml.safe_load(ytext) or {}
        dct.update(extra)
        ytext = yaml.safe_dump(dct)
    ypath = os.path.join(work, "input.yaml")
    with open(ypath, "w") as f:
        f.write(ytext)
    out_name = "bout.grd.nc"
    try:
        y = yaml.safe_load(ytext)
        if isinstance(y, dict) and "grid_file" in y:
            out_name = y["grid_file"]
    except Exception:
        pass
    if kind == "cli_geqdsk":
        fam = build.family_of(dict(spec, kind="tok", via="geqdsk"))
        inp = build.tok_inputs(dict(spec, kind="tok"), fam)
        gpath = os.path.join(work, "input.geqdsk")
        build.write_geqdsk_file(gpath, inp, fam)
        build.mutate_text_file(gpath, spec.get("geqdsk_mutation"))
        build.run_cli("hypnotoad_geqdsk", [gpath] + ([ypath] if spec.get("with_yaml", True) else []), work)
    elif kind == "cli_circ":
        build.run_cli("hypnotoad_circular", [ypath], work)
    elif kind == "cli_torpex":
        build.run_cli("hypnotoad_torpex", [ypath, "--noplot"], work)
        out_name = "torpex.grd.nc"
    src = os.path.join(work, out_name)
    if not os.path.exists(src):
        raise RuntimeError("command-line run finished without writing %s" % out_name)
    dst = os.path.join(casedir, "grid.nc")
    if os.path.exists(dst):
        os.remove(dst)
    shutil.move(src, dst)
    shutil.rmtree(work, ignore_errors=True)


def generate(casedir, spec):
    """Stage 1.  Returns a Capture (live objects) and writes gen.json etc."""
    from . import build, contracts

    gen = {"outcome": None, "stage": "start", "t0": time.time()}
    kind = spec.get("kind", "tok")
    os.environ["VERIF_CONTRACT_LOG"] = os.path.join(casedir, "contracts_workers.jsonl")
    if os.path.exists(os.environ["VERIF_CONTRACT_LOG"]):
        os.remove(os.environ["VERIF_CONTRACT_LOG"])
    counters = contracts.install(spec)
    eq = mesh = fam = None
    inputs = {}
    stage = "equilibrium+mesh"
    try:
        with build.quiet():
            if kind == "tok":
                eq, mesh, fam, _ = build.build_tok(spec, casedir, keep_inputs=inputs)
            elif kind == "circ":
                eq, mesh = build.build_circular(spec, casedir)
            elif kind == "torpex":
                eq, mesh = build.build_torpex(spec, casedir)
            elif kind == "example":
                eq, mesh = build.build_example(spec, casedir)
            elif kind in ("cli_geqdsk", "cli_circ", "cli_torpex"):
                cli_case(spec, casedir, build)
                stage = "cli"
                gen["outcome"] = "ok"
                gen["cli"] = True
            else:
                raise ValueError("unknown case kind %r" % kind)
            if gen.get("cli"):
                raise _CliDone()
            gen["t_mesh"] = time.time() - gen["t0"]
            for h in spec.get("history", []) or []:
                stage = "redistributePoints"
                mesh.redistributePoints(dict(h))
            stage = "geometry"
            mesh.geometry()
            gen["t_geom"] = time.time() - gen["t0"]
            stage = "writeGridfile"
            ncpath = os.path.join(casedir, "grid.nc")
            if os.path.exists(ncpath):
                os.remove(ncpath)
            mesh.writeGridfile(ncpath)
        gen["outcome"] = "ok"
    except _CliDone:
        pass
    except BaseException as e:  # noqa: B902 - SystemExit from argparse etc. is a refusal
        if isinstance(e, KeyboardInterrupt):
            raise
        gen["outcome"] = "refused"
        gen["exc_type"] = type(e).__name__
        gen["exc_msg"] = str(e)[:2000]
        gen["exc_tb"] = traceback.format_exc()[-3000:]
        # a file left behind by a failing writeGridfile is evidence for C12
        gen["file_left_behind"] = os.path.exists(os.path.join(casedir, "grid.nc")) and stage == "writeGridfile"
    gen["stage"] = stage
    gen["wall_s"] = time.time() - gen["t0"]
    gen["contracts"] = contracts.snapshot(counters)
    if mesh is not None:
        _terminate_parallel_maps(mesh)
    cap = Capture(casedir, spec, eq=eq, mesh=mesh, fam=fam, inputs=inputs, gen=gen)
    # persist
    if gen["outcome"] == "ok" and mesh is not None:
        try:
            import dill

            with open(os.path.join(casedir, "capture.dill.tmp"), "wb") as f:
                dill.dump({"eq": eq, "mesh": mesh, "inputs": inputs}, f, recurse=False)
            os.replace(os.path.join(casedir, "capture.dill.tmp"), os.path.join(casedir, "capture.dill"))
            gen["capture"] = True
        except Exception as e:
            gen["capture"] = False
            gen["capture_error"] = repr(e)[:500]
    dump_json(os.path.join(casedir, "gen.json"), gen)
    return cap


def load_capture(casedir, spec):
    from . import build

    with open(os.path.join(casedir, "gen.json")) as f:
        gen = json.load(f)
    eq = mesh = None
    inputs = {}
    if gen.get("outcome") == "ok" and gen.get("capture"):
        import dill

        with open(os.path.join(casedir, "capture.dill"), "rb") as f:
            d = dill.load(f)
        eq, mesh, inputs = d["eq"], d["mesh"], d["inputs"]
    fam = build.family_of(spec)
    return Capture(casedir, spec, eq=eq, mesh=mesh, fam=fam, inputs=inputs, gen=gen)


def run_monitors(cap, names, casedir, mon_hashes):
    import importlib

    for name in names:
        out = os.path.join(casedir, "mon_%s.json" % name)
        t0 = time.time()
        res = {"property": name, "mon_hash": mon_hashes.get(name), "records": [], "error": None}
        try:
            mod = importlib.import_module("vmon.monitors.%s" % name.lower())
            if cap.gen.get("outcome") != "ok":
                res["skipped"] = "case refused"
            elif not mod.applies(cap.spec):
                res["skipped"] = "not applicable"
            else:
                res["records"] = mod.run(cap)
        except Exception:
            res["error"] = traceback.format_exc()[-4000:]
        res["wall_s"] = time.time() - t0
        dump_json(out, res)


def main(argv=None):
    argv = argv or sys.argv[1:]
    casedir = argv[0]
    monitors = []
    if "--monitors" in argv:
        monitors = [m for m in argv[argv.index("--monitors") + 1].split(",") if m]
    with open(os.path.join(casedir, "spec.json")) as f:
        spec = json.load(f)
    from . import orchestrate

    mon_hashes = {m: orchestrate.monitor_hash(m) for m in monitors}
    todo = []
    for m in monitors:
        p = os.path.join(casedir, "mon_%s.json" % m)
        ok = False
        if os.path.exists(p):
            try:
                with open(p) as f:
                    ok = json.load(f).get("mon_hash") == mon_hashes[m]
            except Exception:
                ok = False
        if not ok:
            todo.append(m)
    have_gen = os.path.exists(os.path.join(casedir, "gen.json"))
    if have_gen and not todo:
        return 0
    if not have_gen:
        cap = generate(casedir, spec)
        if cap.fam is None:
            from . import build

            cap.fam = build.family_of(spec)
    else:
        cap = load_capture(casedir, spec)
        if cap.gen.get("outcome") == "ok" and cap.mesh is None and not cap.gen.get("cli"):
            # capture could not be pickled: regenerate in this process
            for fn in ("gen.json",):
                os.remove(os.path.join(casedir, fn))
            cap = generate(casedir, spec)
    if todo:
        run_monitors(cap, todo, casedir, mon_hashes)
    return 0


if __name__ == "__main__":
    sys.exit(main())
