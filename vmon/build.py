"""Builds equilibria and meshes through hypnotoad's real API / CLI from a case spec."""

import contextlib
import io
import os
import sys
import warnings

import numpy as np

from . import families


@contextlib.contextmanager
def quiet():
    """hypnotoad prints a great deal; send it to /dev/null (file-descriptor level is
    not needed, everything goes through Python's print)."""
    old = sys.stdout
    sys.stdout = open(os.devnull, "w")
    try:
        with warnings.catch_warnings():
            warnings.simplefilter("ignore")
            yield
    finally:
        sys.stdout.close()
        sys.stdout = old


def family_of(spec):
    kind = spec.get("kind", "tok")
    if kind == "tok":
        e = dict(spec.get("eq", {}))
        if spec.get("via", "api") != "api":
            e["pn_max"] = 1.0  # a geqdsk profile grid is linspace(simagx, sibdry)
        return families.GaussFamily(e)
    return None


def tok_inputs(spec, fam=None):
    fam = fam or family_of(spec)
    R1D, Z1D, psi2D, psi1D, fpol1D, pres = fam.arrays()
    wall = families.make_wall(spec.get("wall"), mirror=fam.mirror)
    if spec.get("wall_points") is not None:
        wall = [tuple(p) for p in spec["wall_points"]]
    return dict(R1D=R1D, Z1D=Z1D, psi2D=psi2D, psi1D=psi1D, fpol1D=fpol1D, pressure=pres, wall=wall)


def geqdsk_data(inp, fam):
    """Dictionary for the real geqdsk writer from the analytic family."""
    R1D, Z1D = inp["R1D"], inp["Z1D"]
    nx, ny = len(R1D), len(Z1D)
    o = fam.critical_points()[0][0]
    data = dict(
        nx=nx,
        ny=ny,
        rdim=float(R1D[-1] - R1D[0]),
        zdim=float(Z1D[-1] - Z1D[0]),
        rcentr=float(0.5 * (R1D[0] + R1D[-1])),
        bcentr=float(fam.F_of_psinorm(0.0) / (0.5 * (R1D[0] + R1D[-1]))),
        rleft=float(R1D[0]),
        zmid=float(0.5 * (Z1D[0] + Z1D[-1])),
        rmagx=float(o[0]),
        zmagx=float(o[1]),
        simagx=float(fam.psi_axis),
        sibdry=float(fam.psi_bdry),
        cpasma=1.0e5,
        fpol=np.asarray(inp["fpol1D"] if len(inp["fpol1D"]) else np.zeros(nx)),
        pres=np.asarray(inp["pressure"] if inp["pressure"] is not None else np.zeros(nx)),
        qpsi=np.linspace(1.0, 3.0, nx),
        psi=inp["psi2D"],
    )
    if inp["wall"] is not None:
        data["rlim"] = np.array([p[0] for p in inp["wall"]])
        data["zlim"] = np.array([p[1] for p in inp["wall"]])
        # a plausible boundary: not used by hypnotoad but part of the format
        data["rbdry"] = np.array([p[0] for p in inp["wall"]])
        data["zbdry"] = np.array([p[1] for p in inp["wall"]])
    return data


def write_geqdsk_file(path, inp, fam):
    from hypnotoad.geqdsk._geqdsk import write as geq_write

    with open(path, "w") as fh:
        geq_write(geqdsk_data(inp, fam), fh, label="VERIF")


def build_tok(spec, workdir, keep_inputs=None):
    """Returns (eq, mesh, fam, inputs).  Raises whatever hypnotoad raises."""
    from hypnotoad import tokamak
    from hypnotoad.core.mesh import BoutMesh

    fam = family_of(spec)
    inp = tok_inputs(spec, fam)
    opts = dict(spec.get("opts", {}))
    nprocs = spec.get("np")
    if nprocs:
        opts["number_of_processors"] = int(nprocs)
    via = spec.get("via", "api")
    if keep_inputs is not None:
        keep_inputs.update({k: (None if v is None else np.array(v, copy=True)) for k, v in inp.items()})
    if via == "api":
        eq = tokamak.TokamakEquilibrium(
            inp["R1D"],
            inp["Z1D"],
            inp["psi2D"],
            inp["psi1D"],
            inp["fpol1D"],
            pressure=inp["pressure"],
            wall=inp["wall"],
            settings=dict(opts),
            nonorthogonal_settings=dict(opts),
        )
    elif via == "geqdsk":
        gpath = os.path.join(workdir, "input.geqdsk")
        write_geqdsk_file(gpath, inp, fam)
        mutate_text_file(gpath, spec.get("geqdsk_mutation"))
        with open(gpath, "rt") as fh:
            eq = tokamak.read_geqdsk(fh, settings=dict(opts), nonorthogonal_settings=dict(opts))
        if isinstance(eq, tuple):
            raise eq[1]
    else:
        raise ValueError(via)
    mesh_opts = dict(opts)
    mesh_opts.update(spec.get("mesh_opts_override", {}))
    mesh = BoutMesh(eq, mesh_opts)
    return eq, mesh, fam, inp


def mutate_text_file(path, mut):
    """Hostile edits of a geqdsk text file: truncate, corrupt a field, drop a line."""
    if not mut:
        return
    with open(path) as f:
        txt = f.read()
    kind = mut.get("kind")
    if kind == "truncate":
        txt = txt[: int(len(txt) * float(mut.get("frac", 0.5)))]
    elif kind == "garbage":
        lines = txt.split("\n")
        k = int(mut.get("line", 10)) % len(lines)
        lines[k] = lines[k][:16] + "  NOT_A_NUMBER  " + lines[k][32:]
        txt = "\n".join(lines)
    elif kind == "dropline":
        lines = txt.split("\n")
        del lines[int(mut.get("line", 10)) % len(lines)]
        txt = "\n".join(lines)
    elif kind == "nan":
        lines = txt.split("\n")
        k = int(mut.get("line", 10)) % len(lines)
        lines[k] = "             NaN" + lines[k][16:]
        txt = "\n".join(lines)
    elif kind == "empty":
        txt = ""
    with open(path, "w") as f:
        f.write(txt)


def build_example(spec, workdir):
    """The shipped examples/tokamak/tokamak_example.py, run the way its __main__ does."""
    import importlib.util

    import yaml
    from hypnotoad import tokamak
    from hypnotoad.core.mesh import BoutMesh

    from .env import REPO

    exdir = os.path.join(REPO, "examples", "tokamak")
    sp = importlib.util.spec_from_file_location("tokamak_example_verif", os.path.join(exdir, "tokamak_example.py"))
    mod = importlib.util.module_from_spec(sp)
    sp.loader.exec_module(mod)
    geometry = spec["geometry"]
    if "sn" in geometry:
        filename = "single-null.yaml"
    elif geometry == "cdn":
        filename = "connected-double-null.yaml"
    else:
        filename = "disconnected-double-null.yaml"
    with open(os.path.join(exdir, filename)) as f:
        options = yaml.safe_load(f)
    options.update(spec.get("opts", {}))
    r1d, z1d, psi2d, psi1d = mod.create_tokamak(geometry=geometry, nx=65, ny=65)
    wall_extra = 0.2
    rmin, rmax = min(r1d) + wall_extra, max(r1d) - wall_extra
    zmin, zmax = min(z1d) + wall_extra, max(z1d) - wall_extra
    eq = tokamak.TokamakEquilibrium(r1d, z1d, psi2d, psi1d, fpol1D=[], settings=options, wall=[(rmin, zmin), (rmin, zmax), (rmax, zmax), (rmax, zmin)])
    mesh = BoutMesh(eq, options)
    return eq, mesh


def run_cli(script, args, cwd):
    """Runs one of the real command-line main() functions in-process."""
    import importlib

    mod = importlib.import_module("hypnotoad.scripts." + script)
    old_argv = sys.argv
    old_cwd = os.getcwd()
    sys.argv = [script] + list(args)
    os.chdir(cwd)
    try:
        mod.main()
    finally:
        sys.argv = old_argv
        os.chdir(old_cwd)


def run_cli_geqdsk(gfile, yamlfile, cwd):
    """Runs the real hypnotoad-geqdsk main() in-process."""
    from hypnotoad.scripts import hypnotoad_geqdsk

    old_argv = sys.argv
    old_cwd = os.getcwd()
    sys.argv = ["hypnotoad-geqdsk", gfile] + ([yamlfile] if yamlfile else [])
    os.chdir(cwd)
    try:
        hypnotoad_geqdsk.main()
    finally:
        sys.argv = old_argv
        os.chdir(old_cwd)


def build_circular(spec, workdir):
    from hypnotoad.cases.circular import CircularEquilibrium
    from hypnotoad.core.mesh import BoutMesh

    opts = dict(spec.get("opts", {}))
    eq = CircularEquilibrium(dict(opts), nonorthogonal_settings=dict(opts))
    mesh = BoutMesh(eq, dict(opts))
    return eq, mesh


def build_torpex(spec, workdir):
    """TORPEX isolated X-point from a coil file (needs sympy) -- spec['file'] is
    relative to the repository, or spec['yaml'] holds the file text."""
    from hypnotoad.cases import torpex
    from .env import REPO

    if "yaml" in spec:
        path = os.path.join(workdir, "torpex_input.yaml")
        with open(path, "w") as f:
            f.write(spec["yaml"])
    else:
        path = spec["file"]
        if not os.path.isabs(path):
            path = os.path.join(REPO, path)
    mesh = torpex.createMesh(path)
    return mesh.equilibrium, mesh
