"""./check <Cxx> --tier quick|thorough [--replay file] [--no-cache]

Plans the executions a property needs, runs them (cached on the repository content
hash), aggregates the predicate records, matches failures against the committed
known-findings file, writes evidence/<id>.json and ends with one of three verdicts.
"""

import argparse
import hashlib
import importlib
import json
import os
import re
import sys
import time

from . import env

env.setup_paths()

from . import orchestrate  # noqa: E402

EVID = os.path.join(env.VERIF_ROOT, "evidence")
REPLAY = os.path.join(env.VERIF_ROOT, "replay")
KNOWN = os.path.join(env.VERIF_ROOT, "known_findings.json")


def load_known(prop):
    if not os.path.exists(KNOWN):
        return []
    with open(KNOWN) as f:
        data = json.load(f)
    return [k for k in data.get("findings", []) if k.get("property") == prop]


def match_known(record, known):
    for k in known:
        if k.get("status") != "known":
            continue
        if not re.search(k["pred"], record.get("pred", "")):
            continue
        if k.get("cls") and not re.search(k["cls"], record.get("cls", "")):
            continue
        if k.get("sig") is not None and not re.search(k["sig"], record.get("sig", "") or ""):
            continue
        return k
    return None


def write_replay(prop, source, record):
    os.makedirs(REPLAY, exist_ok=True)
    h = hashlib.sha256(json.dumps([source, record.get("pred"), record.get("cls")], sort_keys=True, default=str).encode()).hexdigest()[:12]
    path = os.path.join(REPLAY, "%s_%s.json" % (prop, h))
    with open(path, "w") as f:
        json.dump({"property": prop, "source": source, "record": record, "repo_hash": orchestrate.repo_hash(), "seed": int(os.environ.get("VERIF_SEED", "0"))}, f, indent=1, default=str)
    return path


def do_replay(prop, path):
    with open(path) as f:
        rp = json.load(f)
    src = rp["source"]
    print("replaying", path)
    print("recorded failure:", json.dumps(rp["record"], indent=1))
    if src.get("type") == "case":
        r = orchestrate.run_case(src["spec"], [prop], use_cache=False)
        print("case status:", r["status"], "outcome:", (r["gen"] or {}).get("outcome"))
        m = r["mon"].get(prop, {})
        if m.get("error"):
            print(m["error"])
        bad = 0
        for rec_ in m.get("records", []):
            flag = "ok  " if rec_["ok"] else "FAIL"
            bad += 0 if rec_["ok"] else 1
            print(flag, json.dumps(rec_, default=str))
        for v in ((r["gen"] or {}).get("contracts") or {}).get("violations", []):
            if v["contract"].startswith(prop):
                bad += 1
                print("FAIL contract", json.dumps(v, default=str))
        return 1 if bad else 0
    elif src.get("type") == "job":
        r = orchestrate.run_job(src["job"], use_cache=False)
        bad = 0
        for rec_ in (r["out"] or {}).get("records", []):
            flag = "ok  " if rec_["ok"] else "FAIL"
            bad += 0 if rec_["ok"] else 1
            print(flag, json.dumps(rec_, default=str))
        return 1 if bad else 0
    print("unknown replay source")
    return 2


def main(argv=None):
    ap = argparse.ArgumentParser()
    ap.add_argument("prop")
    ap.add_argument("--tier", default=os.environ.get("VERIF_TIER", "quick"), choices=["quick", "thorough"])
    ap.add_argument("--replay", default=None)
    ap.add_argument("--no-cache", action="store_true")
    ap.add_argument("--jobs", type=int, default=None)
    ap.add_argument("--verbose", "-v", action="store_true")
    args = ap.parse_args(argv)
    prop = args.prop.upper()
    seed = int(os.environ.get("VERIF_SEED", "0"))
    t0 = time.time()
    if not env.ensure_deps():
        print("INCONCLUSIVE property=%s reason=could not install helper packages into .deps" % prop)
        return 2
    if args.replay:
        return do_replay(prop, args.replay)
    orchestrate.prune_cache()
    mod = importlib.import_module("vmon.props.%s" % prop.lower())
    plan = mod.plan(args.tier, seed)
    cases = plan.get("cases", [])
    jobs = plan.get("jobs", [])
    monitors = plan.get("monitors", [prop])
    # phase 1: unit jobs that need no grid run together with the cases; jobs that compare
    # cases ("needs_cases") run in phase 2
    late = [j for j in jobs if j.get("module", "").endswith(("pair_compare", "ladder")) or j.get("needs_cases")]
    early = [j for j in jobs if j not in late]
    work = [(orchestrate.run_case, (s, monitors), {"use_cache": not args.no_cache}) for s in cases]
    work += [(orchestrate.run_job, (j,), {"use_cache": not args.no_cache}) for j in early]
    results = orchestrate.run_many(work, jobs=args.jobs)
    case_res = results[: len(cases)]
    job_res = results[len(cases) :]
    if late:
        # a pair job's cache key must depend on the cases it reads
        for j in late:
            j.setdefault("args", {})["_case_keys"] = [orchestrate.case_key(j["args"][k]) for k in ("a", "b") if isinstance(j["args"].get(k), dict)] + [orchestrate.case_key(c_) for c_ in j["args"].get("cases", [])]
        job_res += orchestrate.run_many([(orchestrate.run_job, (j,), {"use_cache": not args.no_cache}) for j in late], jobs=args.jobs)
    jobs = early + late
    results = case_res + job_res

    known = load_known(prop)
    records = []  # (source, record)
    inconclusive = []
    refused = []
    n_exec = 0
    n_computed = 0
    distinct = set()
    samples = []
    for r in case_res:
        if r.get("status") == "harness_error":
            inconclusive.append("harness error: %s" % r.get("error"))
            continue
        n_exec += 1
        n_computed += 1 if r["computed"] else 0
        spec = r["spec"]
        src = {"type": "case", "spec": spec, "dir": r["dir"]}
        tag = spec.get("tag") or orchestrate.case_key(spec)
        if r["status"] == "timeout" or r["gen"] is None:
            inconclusive.append("case %s: %s (no generation result)" % (tag, r["status"]))
            continue
        gen = r["gen"]
        if gen["outcome"] != "ok":
            refused.append({"case": tag, "stage": gen.get("stage"), "exc": gen.get("exc_type"), "msg": (gen.get("exc_msg") or "")[:200]})
        nrec = 0
        for m in monitors:
            mm = r["mon"].get(m)
            if mm is None:
                if gen["outcome"] == "ok":
                    inconclusive.append("case %s: monitor %s produced no result (%s)" % (tag, m, r["status"]))
                continue
            if mm.get("error"):
                inconclusive.append("case %s: monitor %s crashed: %s" % (tag, m, mm["error"].strip().splitlines()[-1]))
                if args.verbose:
                    print(mm["error"])
                continue
            for rec_ in mm.get("records", []):
                if hasattr(mod, "select") and not mod.select(rec_, m):
                    continue
                records.append((src, rec_))
                nrec += rec_.get("n", 0)
        if hasattr(mod, "case_records"):
            for rec_ in mod.case_records(r):
                records.append((src, rec_))
                nrec += rec_.get("n", 0)
        con = gen.get("contracts") or {}
        for v in con.get("violations", []):
            if v["contract"].startswith(prop + "."):
                records.append((src, {"pred": "contract." + v["contract"], "cls": "online", "n": 1, "worst": None, "thr": None, "ok": False, "sig": str(v.get("detail"))[:300]}))
        for cname, cnt in con.get("counters", {}).items():
            if cname.startswith(prop + ".") and cname.endswith("#monitor_error"):
                inconclusive.append("case %s: the online contract %s failed in its own code %d times" % (tag, cname, cnt))
                continue
            if cname.startswith(prop + ".") and not cname.endswith("#violations"):
                records.append((src, {"pred": "contract." + cname, "cls": "online", "n": cnt, "worst": 0.0, "thr": 0.0, "ok": True}))
                nrec += cnt
        if nrec > 0:
            distinct.add(orchestrate.case_key(spec))
            if len(samples) < 4:
                samples.append({"case": spec, "outcome": gen["outcome"], "predicate_evaluations": nrec})
    for r in job_res:
        if r.get("status") == "harness_error":
            inconclusive.append("harness error: %s" % r.get("error"))
            continue
        n_computed += 1 if r["computed"] else 0
        job = r["job"]
        src = {"type": "job", "job": job, "dir": r["dir"]}
        if r["out"] is None:
            inconclusive.append("job %s: %s (no output)" % (job.get("name"), r["status"]))
            continue
        out = r["out"]
        n_exec += int(out.get("executions", 1))
        for d in out.get("distinct_keys", []):
            distinct.add(d)
        if "distinct" in out and not out.get("distinct_keys"):
            for i in range(int(out["distinct"])):
                distinct.add("%s#%d" % (r["dir"], i))
        for rec_ in out.get("records", []):
            if rec_.get("prop") and rec_["prop"] != prop:
                continue  # a shared job reports for several properties
            records.append((src, rec_))
        for s in out.get("samples", [])[:3]:
            if len(samples) < 8:
                samples.append(s)
        for inc in out.get("inconclusive", []):
            inconclusive.append("job %s: %s" % (job.get("name"), inc))

    # ---- coverage requirements ------------------------------------------------------
    classes = {}
    for _, rec_ in records:
        c = classes.setdefault(rec_.get("cls", "?"), {"evaluations": 0, "records": 0})
        c["evaluations"] += int(rec_.get("n", 0))
        c["records"] += 1
    if hasattr(mod, "required"):
        for miss in mod.required(args.tier, classes, [rec_ for _, rec_ in records]):
            inconclusive.append("coverage: " + miss)
    if not records:
        inconclusive.append("no deciding predicate was evaluated")

    # ---- failures vs known findings -----------------------------------------------
    violations = []
    known_hits = {}
    for src, rec_ in records:
        if rec_.get("ok"):
            continue
        k = match_known(rec_, known)
        if k is not None:
            known_hits.setdefault(k["key"], {"entry": k, "count": 0, "example": rec_})["count"] += 1
        else:
            violations.append((src, rec_))

    # worst margins per predicate
    worst = {}
    for _, rec_ in records:
        p = rec_["pred"]
        w = worst.setdefault(p, {"n": 0, "worst_margin": 0.0, "failed": 0})
        w["n"] += int(rec_.get("n", 0))
        mg = rec_.get("margin")
        if mg is not None and (mg != mg or mg > w["worst_margin"]):
            w["worst_margin"] = mg
        if not rec_.get("ok"):
            w["failed"] += 1

    replay_paths = []
    seen = set()
    for src, rec_ in violations:
        sigkey = (rec_.get("pred"), rec_.get("cls"))
        if sigkey in seen:
            continue
        seen.add(sigkey)
        replay_paths.append((write_replay(prop, src, rec_), rec_))

    level = getattr(mod, "LEVEL", "exploration")
    ev = {
        "property_id": prop,
        "tier": args.tier,
        "seed": seed,
        "level": level,
        "coverage": {
            "evaluations": int(n_exec),
            "distinct_nontrivial": int(len(distinct)),
            "rule": getattr(mod, "RULE", ""),
            "samples": samples if samples else [{"note": "no case produced a record"}],
            "predicate_evaluations": int(sum(int(r_.get("n", 0)) for _, r_ in records)),
            "classes": classes,
            "predicates": worst,
            "refused_cases": refused,
            "cases_computed_this_run": int(n_computed),
            "cases_reused_from_cache": int(len(results) - n_computed),
            "repo_hash": orchestrate.repo_hash(),
            "known_findings_seen": {k: v["count"] for k, v in known_hits.items()},
            "inconclusive_reasons": inconclusive,
        },
        "assumptions": getattr(mod, "ASSUMPTIONS", []),
        "wall_s": round(time.time() - t0, 2),
        "violations": len(violations),
    }
    os.makedirs(EVID, exist_ok=True)
    tmp = os.path.join(EVID, "%s.json.tmp%d" % (prop, os.getpid()))
    with open(tmp, "w") as f:
        json.dump(ev, f, indent=1, default=str)
    os.replace(tmp, os.path.join(EVID, "%s.json" % prop))

    print("%s tier=%s seed=%d: %d executions (%d computed now), %d distinct non-trivial, %d predicate evaluations, %d classes, %.1fs" % (prop, args.tier, seed, n_exec, n_computed, len(distinct), ev["coverage"]["predicate_evaluations"], len(classes), ev["wall_s"]))
    if args.verbose:
        for p, w in sorted(worst.items()):
            print("   %-55s n=%-8d worst margin=%.3g failed=%d" % (p, w["n"], w["worst_margin"], w["failed"]))
        for rf in refused:
            print("   refused:", rf)
    for key, v in known_hits.items():
        print("KNOWN-FINDING: property=%s %s [%s] seen %d times" % (prop, v["entry"].get("description", key), key, v["count"]))
    if violations:
        for path, rec_ in replay_paths:
            print("VIOLATION property=%s replay=%s" % (prop, path))
            print("   %s cls=%s worst=%s thr=%s sig=%s where=%s" % (rec_.get("pred"), rec_.get("cls"), rec_.get("worst"), rec_.get("thr"), rec_.get("sig"), rec_.get("where")))
        return 1
    if inconclusive:
        for r in inconclusive[:20]:
            print("INCONCLUSIVE property=%s reason=%s" % (prop, r))
        return 2
    print("HELD property=%s on everything explored" % prop)
    return 0


if __name__ == "__main__":
    sys.exit(main())
