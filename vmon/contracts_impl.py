"""The individual contracts (see contracts.py).  Filled in per property."""


def install_all(count, violate):
    pass
