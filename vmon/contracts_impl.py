"""The individual contracts (see contracts.py).  Filled in per property."""


def install_all(count, violate):
    pass


def install_delays(cfg):
    """Seeded random sleeps inside the real tasks that MeshRegion hands to ParallelMap, so
    that worker completion orders are permuted (C13).  The wrappers keep the original
    __module__/__qualname__ and replace the module attribute, so they pickle by reference
    and are found again inside the (forked) workers."""
    import functools
    import os
    import random
    import time

    import hypnotoad.core.equilibrium as eqm
    import hypnotoad.core.mesh as mesh

    seed = int(cfg.get("seed", 0))
    max_s = float(cfg.get("max_s", 0.02))

    def wrap(fn):
        @functools.wraps(fn)
        def w(*a, **k):
            rnd = random.Random((seed, os.getpid(), time.monotonic_ns()).__hash__())
            time.sleep(rnd.random() * max_s)
            return fn(*a, **k)

        return w

    for name in ("followPerpendicular", "_find_intersection", "_calc_contour_distance", "_refine_extend"):
        setattr(mesh, name, wrap(getattr(mesh, name)))
    eqm.PsiContour.refine = wrap(eqm.PsiContour.refine)
