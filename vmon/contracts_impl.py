"""The individual online contracts (see contracts.py).

Each contract wraps a real hypnotoad function (module attributes are patched in every
module that binds the name), evaluates a post-condition on every call made while the real
grid generator runs, counts its evaluations and records violations instead of raising, so
one defect does not mask the rest.  Names are '<property>.<contract>'.
"""

import functools
import threading

import numpy as np

_tl = threading.local()
_BOX = [None]  # (Rmin, Rmax, Zmin, Zmax) of the psi data of the equilibrium being gridded


def _wall_distance(closed, R, Z):
    """float distance from (R,Z) to the closed polyline `closed` (n,2)."""
    a = closed[:-1]
    b = closed[1:]
    m = b - a
    mm = np.maximum((m * m).sum(axis=1), 1e-300)
    t = np.clip(((R - a[:, 0]) * m[:, 0] + (Z - a[:, 1]) * m[:, 1]) / mm, 0.0, 1.0)
    q = a + t[:, None] * m
    return float(np.sqrt(((q[:, 0] - R) ** 2 + (q[:, 1] - Z) ** 2).min()))


def install_all(count, violate):
    import hypnotoad.core.equilibrium as eqm
    import hypnotoad.core.mesh as mesh

    PsiContour = eqm.PsiContour
    Equilibrium = eqm.Equilibrium
    EquilibriumRegion = eqm.EquilibriumRegion

    def guarded(name, fn, *a, **k):
        """A monitor never changes what the monitored code does: an exception raised by
        the monitor's own code is counted ('<contract>#monitor_error' -> inconclusive),
        never propagated."""
        try:
            return fn(*a, **k)
        except Exception as e:  # noqa: BLE001
            count(name + "#monitor_error")
            _tl.__dict__.setdefault("monitor_errors", []).append((name, repr(e)[:200]))
            return None

    # ---- C01: refinePoint puts the point on its flux surface --------------------------------
    for mname in ("refinePointNewton", "refinePointLinesearch", "refinePointIntegrate"):
        orig = getattr(PsiContour, mname)

        def mk(orig, mname):
            @functools.wraps(orig)
            def w(self, *a, **k):
                r = orig(self, *a, **k)
                _tl.last_method = mname
                return r

            return w

        setattr(PsiContour, mname, mk(orig, mname))

    orig_refinePoint = PsiContour.refinePoint

    @functools.wraps(orig_refinePoint)
    def refinePoint(self, p, tangent, *, psi, width=None, atol=None, methods=None, **kwargs):
        _tl.last_method = None
        r = orig_refinePoint(self, p, tangent, psi=psi, width=width, atol=atol, methods=methods, **kwargs)
        guarded("C01.refinePoint", _check_rp, self, r, psi, atol)
        return r

    def _check_rp(self, r, psi, atol):
        if self.psival is not None and getattr(_tl, "last_method", None) is not None:
            at = atol if atol is not None else self.user_options.refine_atol
            resid = abs(float(psi(r.R, r.Z)) - self.psival)
            tol = 1.5 * at * max(1.0, abs(self.psival))
            if _tl.last_method == "refinePointIntegrate":
                # documented: the pure 'integrate' fall-back does not honour atol
                # (intermediate points only: the final grid points are checked offline)
                count("C01.refinePoint(integrate fall-back, atol not honoured)")
                if resid > tol:
                    count("C01.refinePoint(integrate fall-back left the point off its surface)")
            else:
                count("C01.refinePoint")
                if not (resid <= tol):
                    violate("C01.refinePoint", {"resid": resid, "tol": tol, "method": _tl.last_method, "psival": self.psival, "point": [r.R, r.Z]})

    PsiContour.refinePoint = refinePoint

    # the psi data box of the equilibrium being gridded (set before the workers are forked)
    orig_mesh_init = mesh.Mesh.__init__

    @functools.wraps(orig_mesh_init)
    def mesh_init(self, equilibrium, settings, *a, **k):
        def setbox():
            from .gridutil import psi_box

            _BOX[0] = psi_box(equilibrium)

        guarded("mesh_init", setbox)
        return orig_mesh_init(self, equilibrium, settings, *a, **k)

    mesh.Mesh.__init__ = mesh_init

    # ---- C01/C04: followPerpendicular returns one point per requested psi, in order ----------
    orig_fp = mesh.followPerpendicular

    @functools.wraps(orig_fp)
    def followPerpendicular(i, p0, psi0, *, f_R, f_Z, psivals, rtol=2.0e-8, atol=1.0e-8, maxits=1000, recover=False, **kwargs):
        res = orig_fp(i, p0, psi0, f_R=f_R, f_Z=f_Z, psivals=psivals, rtol=rtol, atol=atol, maxits=maxits, recover=recover, **kwargs)
        guarded("C04.followPerpendicular", _check_fp, i, recover, res, psivals, kwargs)
        return res

    def _check_fp(i, recover, res, psivals, kwargs):
        if i is not None and not recover:  # top-level calls only (recursive calls pass i=None)
            count("C04.followPerpendicular")
            pv = np.asarray(psivals, float)
            if len(res) != len(pv):
                violate("C04.followPerpendicular", {"what": "number of points", "got": len(res), "want": len(pv)})
            else:
                psi = kwargs.get("psi")
                b = _BOX[0]
                if b is not None and any(not (b[0] <= q.R <= b[1] and b[2] <= q.Z <= b[3]) for q in res):
                    # beyond the psi data the interpolated psi is clamped: nothing to compare with
                    count("C04.followPerpendicular(points outside the psi data box: not compared)")
                elif psi is not None and len(pv) > 1:
                    got = np.array([float(psi(q.R, q.Z)) for q in res])
                    # each returned point is unambiguously the one of its own psival: the
                    # error is a small fraction of the distance to the neighbouring values
                    # (the points are refined onto their surfaces afterwards, so only the
                    # association point <-> psival matters here)
                    dpv = np.abs(np.diff(pv))
                    rng = float(dpv[dpv > 0].min()) if np.any(dpv > 0) else float("inf")
                    err = float(np.abs(got - pv).max()) / rng
                    if not (err <= 0.25):
                        violate("C04.followPerpendicular", {"what": "psi at the returned points vs requested psivals (order preserved)", "err_rel": err, "psivals": pv.tolist()[:6], "got": got.tolist()[:6]})

    mesh.followPerpendicular = followPerpendicular

    # ---- C05: contour distances strictly increasing ----------------------------------------------
    orig_gd = PsiContour.get_distance

    @functools.wraps(orig_gd)
    def get_distance(self, *, psi):
        fresh = self._distance is None
        d = orig_gd(self, psi=psi)
        if fresh:
            guarded("C05.get_distance", _check_gd, d)
        return d

    def _check_gd(d):
        count("C05.get_distance")
        a = np.asarray(d, float)
        if not np.all(np.diff(a) > 0):
            violate("C05.get_distance", {"what": "distance along a contour not strictly increasing", "n": len(a)})

    PsiContour.get_distance = get_distance

    # ---- C08: makeConnection symmetric, equal nx -------------------------------------------------
    orig_mc = Equilibrium.makeConnection

    @functools.wraps(orig_mc)
    def makeConnection(self, lowerRegion, lowerSegment, upperRegion, upperSegment):
        r = orig_mc(self, lowerRegion, lowerSegment, upperRegion, upperSegment)
        guarded("C08.makeConnection", _check_mc, self, lowerRegion, lowerSegment, upperRegion, upperSegment)
        return r

    def _check_mc(self, lowerRegion, lowerSegment, upperRegion, upperSegment):
        count("C08.makeConnection")
        lo, up = self.regions[lowerRegion], self.regions[upperRegion]
        if lo.connections[lowerSegment]["upper"] != (upperRegion, upperSegment) or up.connections[upperSegment]["lower"] != (lowerRegion, lowerSegment):
            violate("C08.makeConnection", {"what": "connection not symmetric", "args": [lowerRegion, lowerSegment, upperRegion, upperSegment]})
        if lo.nx[lowerSegment] != up.nx[upperSegment]:
            violate("C08.makeConnection", {"what": "joined edges of unequal size", "args": [lowerRegion, lowerSegment, upperRegion, upperSegment]})

    Equilibrium.makeConnection = makeConnection

    # ---- C09: radial spacing function on the real calls ---------------------------------------------
    orig_sm = Equilibrium.getSmoothMonotonicGridFunc
    import weakref

    calls_by_eq = weakref.WeakKeyDictionary()  # one grid = one Equilibrium object

    @functools.wraps(orig_sm)
    def getSmoothMonotonicGridFunc(self, n, lower, upper, *, grad_lower=None, grad_upper=None):
        f = orig_sm(self, n, lower, upper, grad_lower=grad_lower, grad_upper=grad_upper)
        guarded("C09.getSmoothMonotonicGridFunc", _check_sm, self, f, n, lower, upper, grad_lower, grad_upper)
        return f

    def _check_sm(self, f, n, lower, upper, grad_lower, grad_upper):
        count("C09.getSmoothMonotonicGridFunc")
        calls = calls_by_eq.setdefault(self, [])
        R = max(abs(upper - lower), 1e-300)
        v = np.array([float(f(x)) for x in np.linspace(0.0, float(n), 2 * int(round(float(n))) + 1)])
        if abs(v[0] - lower) > 1e-9 * R or abs(v[-1] - upper) > 1e-9 * R:
            violate("C09.getSmoothMonotonicGridFunc", {"what": "end values", "f0": v[0], "fn": v[-1], "lower": lower, "upper": upper})
        h = 1e-4
        if grad_lower is not None:
            def g_lo(h_):
                return (-3 * float(f(0.0)) + 4 * float(f(h_)) - float(f(2 * h_))) / (2 * h_)

            # smallest error over several steps (boundary layer vs evaluation noise, see c09_unit)
            g = min((g_lo(h_) for h_ in (1e-2, 1e-3, 1e-4, 1e-5)), key=lambda x: abs(x / grad_lower - 1))
            if abs(g / grad_lower - 1) > 1e-4:
                violate("C09.getSmoothMonotonicGridFunc", {"what": "gradient at lower end", "got": g, "want": grad_lower})
        if grad_upper is not None:
            def g_up(h_):
                return (3 * float(f(float(n))) - 4 * float(f(n - h_)) + float(f(n - 2 * h_))) / (2 * h_)

            g = min((g_up(h_) for h_ in (1e-2, 1e-3, 1e-4, 1e-5)), key=lambda x: abs(x / grad_upper - 1))
            if abs(g / grad_upper - 1) > 1e-4:
                violate("C09.getSmoothMonotonicGridFunc", {"what": "gradient at upper end", "got": g, "want": grad_upper})
        # pair with earlier calls sharing the boundary value: equal gradient on both sides
        for c in calls:
            for (va, ga), (vb, gb) in (((c["upper"], c["grad_upper"]), (lower, grad_lower)), ((c["lower"], c["grad_lower"]), (upper, grad_upper)), ((c["upper"], c["grad_upper"]), (upper, grad_upper)), ((c["lower"], c["grad_lower"]), (lower, grad_lower))):
                if va == vb and ga is not None and gb is not None:
                    count("C09.equal_gradient_either_side_of_a_separatrix")
                    if abs(ga - gb) > 1e-12 * max(abs(ga), abs(gb)):
                        violate("C09.equal_gradient_either_side_of_a_separatrix", {"boundary": va, "gradients": [ga, gb]})
        calls.append({"n": n, "lower": lower, "upper": upper, "grad_lower": grad_lower, "grad_upper": grad_upper})

    Equilibrium.getSmoothMonotonicGridFunc = getSmoothMonotonicGridFunc

    # ---- C10: guarded poloidal spacing functions ------------------------------------------------------
    def check_sfunc(name, region, sfunc, npoints, total=None):
        try:
            idx = np.arange(-region.extend_lower, npoints + region.extend_upper, dtype=float)
            v = np.asarray(sfunc(idx.copy()), float)
        except Exception as e:  # noqa: BLE001
            violate(name, {"what": "returned spacing function cannot be evaluated on the used indices", "exc": repr(e)[:200]})
            return
        count(name)
        if np.any(np.diff(v) < 0):
            violate(name, {"what": "spacing function decreasing on the used index range", "region": region.name, "values": v.tolist()[:12]})
        s0 = float(np.asarray(sfunc(np.array(0.0))))
        if total is not None and abs(s0) > 1e-9 * max(total, 1e-300):
            violate(name, {"what": "s(0) != 0", "s0": s0, "region": region.name})
        if total is not None:
            sN = float(np.asarray(sfunc(np.array(float(npoints - 1)))))
            if abs(sN - total) > 1e-7 * max(total, 1e-300):
                violate(name, {"what": "s(N) != contour length", "sN": sN, "L": total, "region": region.name})

    orig_fs = EquilibriumRegion.getSfuncFixedSpacing

    @functools.wraps(orig_fs)
    def getSfuncFixedSpacing(self, npoints, distance, *, method=None, spacing_lower=None, spacing_upper=None):
        _tl.in_grid_sfunc = getattr(_tl, "in_grid_sfunc", 0) + 1
        try:
            f = orig_fs(self, npoints, distance, method=method, spacing_lower=spacing_lower, spacing_upper=spacing_upper)
        finally:
            _tl.in_grid_sfunc -= 1
        guarded("C10.getSfuncFixedSpacing", check_sfunc, "C10.getSfuncFixedSpacing", self, f, npoints, total=distance)
        return f

    EquilibriumRegion.getSfuncFixedSpacing = getSfuncFixedSpacing

    orig_cs = EquilibriumRegion.combineSfuncs

    @functools.wraps(orig_cs)
    def combineSfuncs(self, contour, sfunc_orthogonal, *a, **k):
        _tl.in_grid_sfunc = getattr(_tl, "in_grid_sfunc", 0) + 1
        try:
            f = orig_cs(self, contour, sfunc_orthogonal, *a, **k)
        finally:
            _tl.in_grid_sfunc -= 1
        guarded("C10.combineSfuncs", check_sfunc, "C10.combineSfuncs", self, f, 2 * self.ny_noguards + 1)
        return f

    EquilibriumRegion.combineSfuncs = combineSfuncs

    # sqrt spacing: every region of one grid is built with the same normalisation count
    orig_sq = EquilibriumRegion.getSqrtPoloidalDistanceFunc
    nnorms_by_eq = weakref.WeakKeyDictionary()  # one grid = one Equilibrium object

    @functools.wraps(orig_sq)
    def getSqrtPoloidalDistanceFunc(self, length, N, N_norm, **k):
        f = orig_sq(self, length, N, N_norm, **k)
        # only the calls the grid generator itself makes (a direct call with an arbitrary
        # N_norm, as the unit tests make, is not "a region of one grid")
        if getattr(_tl, "in_grid_sfunc", 0) > 0:
            guarded("C10.N_norm_same_for_all_regions", _check_nn, self, N_norm)
        return f

    def _check_nn(self, N_norm):
        count("C10.N_norm_same_for_all_regions")
        nnorms = nnorms_by_eq.setdefault(self.equilibrium, set())
        nnorms.add(float(N_norm))
        if len(nnorms) > 1:
            violate("C10.N_norm_same_for_all_regions", {"N_norm_values": sorted(nnorms), "region": self.name})

    EquilibriumRegion.getSqrtPoloidalDistanceFunc = getSqrtPoloidalDistanceFunc

    # getRegridded keeps the end points of the contour
    orig_rg = PsiContour.getRegridded

    @functools.wraps(orig_rg)
    def getRegridded(self, npoints, *, psi, **k):
        p_start = self[self.startInd]
        p_end = self[self.endInd]
        new = orig_rg(self, npoints, psi=psi, **k)
        guarded("C10.getRegridded_keeps_end_points", _check_rg, new, p_start, p_end, npoints)
        return new

    def _check_rg(new, p_start, p_end, npoints):
        count("C10.getRegridded_keeps_end_points")
        a, b = new[new.startInd], new[new.endInd]
        d = max(np.hypot(a.R - p_start.R, a.Z - p_start.Z), np.hypot(b.R - p_end.R, b.Z - p_end.Z))
        if d > 0.0:
            violate("C10.getRegridded_keeps_end_points", {"moved_by": float(d)})
        if new.endInd - new.startInd != npoints - 1:
            violate("C10.getRegridded_keeps_end_points", {"what": "number of points between startInd and endInd", "got": new.endInd - new.startInd + 1, "want": npoints})

    PsiContour.getRegridded = getRegridded

    # ---- C11: wall intersection points -----------------------------------------------------------------
    orig_fi = mesh._find_intersection

    @functools.wraps(orig_fi)
    def _find_intersection(i_contour, contour, *, equilibrium, lower_wall, upper_wall, max_extend, psi=None, **kwargs):
        res = orig_fi(i_contour, contour, equilibrium=equilibrium, lower_wall=lower_wall, upper_wall=upper_wall, max_extend=max_extend, psi=psi, **kwargs)
        guarded("C11._find_intersection", _check_fi, res, psi, equilibrium)
        return res

    def _check_fi(res, psi, equilibrium):
        c, li, lp, ui, up = res
        psi_ = psi if psi is not None else equilibrium.psi
        for which, pt in (("lower", lp), ("upper", up)):
            if pt is None:
                continue
            count("C11._find_intersection")
            dw = _wall_distance(equilibrium.closed_wallarray, pt.R, pt.Z)
            dpsi = abs(float(psi_(pt.R, pt.Z)) - c.psival)
            tol = 1.5 * c.user_options.refine_atol * max(1.0, abs(c.psival))
            if dw > 1e-4 or dpsi > tol:
                violate("C11._find_intersection", {"which": which, "distance_to_wall": dw, "psi_error": dpsi, "tol": tol})

    mesh._find_intersection = _find_intersection

    orig_ap = mesh.MeshRegion.addPointAtWallToContours

    @functools.wraps(orig_ap)
    def addPointAtWallToContours(self):
        r = orig_ap(self)
        guarded("C11.addPointAtWallToContours", _check_ap, self)
        return r

    def _check_ap(self):
        eq = self.meshParent.equilibrium
        for c in self.contours:
            for wall_end, ind in ((self.connections["lower"] is None, c.startInd), (self.connections["upper"] is None, c.endInd)):
                if not wall_end:
                    continue
                count("C11.addPointAtWallToContours")
                p = c[ind]
                dw = _wall_distance(eq.closed_wallarray, p.R, p.Z)
                if dw > 1e-4:
                    violate("C11.addPointAtWallToContours", {"what": "contour[startInd/endInd] is not the wall point", "distance_to_wall": dw, "region": self.name, "index": ind, "len": len(c)})

    mesh.MeshRegion.addPointAtWallToContours = addPointAtWallToContours

    # ---- C12: the leg tracing of findLegs terminates (decided on logical steps, not on a clock) -------
    try:
        import hypnotoad.cases.tokamak as tokmod

        orig_solve = tokmod.solve_ivp
        orig_fl = tokmod.TokamakEquilibrium.findLegs

        @functools.wraps(orig_solve)
        def counted_solve_ivp(*a, **k):
            st = getattr(_tl, "leg_trace", None)
            if st is not None:
                st["steps"] += 1
                if st["steps"] > st["limit"]:
                    violate("C12.findLegs_terminates", {"what": "leg traced for %d steps (%d x the perimeter of the psi domain) without reaching the wall" % (st["steps"], 40), "xpoint": st["xpoint"]})
                    _tl.leg_trace = None
                    # the only contract that raises: there is no other way out of an endless loop
                    raise RuntimeError("verif monitor: findLegs traced a leg for %d steps without reaching the wall" % st["steps"])
            return orig_solve(*a, **k)

        @functools.wraps(orig_fl)
        def findLegs(self, xpoint, radius=0.01, step=0.01):
            count("C12.findLegs_terminates")
            try:
                per = 2.0 * ((float(self.Rmax) - float(self.Rmin)) + (float(self.Zmax) - float(self.Zmin)))
                _tl.leg_trace = {"steps": 0, "limit": int(40 * per / step) + 100, "xpoint": [float(xpoint.R), float(xpoint.Z)]}
            except Exception:  # noqa: BLE001
                _tl.leg_trace = None
            try:
                return orig_fl(self, xpoint, radius=radius, step=step)
            finally:
                _tl.leg_trace = None

        tokmod.solve_ivp = counted_solve_ivp
        tokmod.TokamakEquilibrium.findLegs = findLegs
    except Exception:  # noqa: BLE001
        count("C12.findLegs_terminates#monitor_error")

    # ---- C13: ParallelMap returns one result per task ----------------------------------------------------
    import hypnotoad.utils.parallel_map as pmod

    orig_call = pmod.ParallelMap.__call__

    @functools.wraps(orig_call)
    def pm_call(self, function, args_list, **kwargs):
        args_list = tuple(args_list)
        res = orig_call(self, function, args_list, **kwargs)
        guarded("C13.ParallelMap_one_result_per_task", _check_pm, res, args_list, function)
        return res

    def _check_pm(res, args_list, function):
        count("C13.ParallelMap_one_result_per_task")
        if len(res) != len(args_list) or any(x is None for x in res):
            violate("C13.ParallelMap_one_result_per_task", {"n_tasks": len(args_list), "n_results": len(res), "function": getattr(function, "__name__", "?")})

    pmod.ParallelMap.__call__ = pm_call


def install_delays(cfg):
    """Seeded random sleeps inside the real tasks that MeshRegion hands to ParallelMap, so
    that worker completion orders are permuted (C13).  The wrappers keep the original
    __module__/__qualname__ and replace the module attribute, so they pickle by reference
    and are found again inside the (forked) workers."""
    import os
    import random
    import time

    import hypnotoad.core.equilibrium as eqm
    import hypnotoad.core.mesh as mesh

    seed = int(cfg.get("seed", 0))
    max_s = float(cfg.get("max_s", 0.02))

    def wrap(fn):
        @functools.wraps(fn)
        def w(*a, **k):
            rnd = random.Random(hash((seed, os.getpid(), time.monotonic_ns())))
            time.sleep(rnd.random() * max_s)
            return fn(*a, **k)

        return w

    for name in ("followPerpendicular", "_find_intersection", "_calc_contour_distance", "_refine_extend"):
        setattr(mesh, name, wrap(getattr(mesh, name)))
    eqm.PsiContour.refine = wrap(eqm.PsiContour.refine)
