"""Small helpers shared by the grid monitors."""

import numpy as np

LOCS = ("centre", "xlow", "ylow", "corners")


def case_class(spec, cap=None):
    kind = spec.get("kind", "tok")
    o = spec.get("opts", {})
    if kind == "tok":
        e = spec.get("eq", {})
        topo = e.get("topo", "lsn")
        if e.get("mirror"):
            topo += "^m"
        s = "s+" if float(e.get("s", 1)) > 0 else "s-"
        f = {1.0: "f+", -1.0: "f-", 0.0: "f0"}[float(e.get("fs", 1.0))]
        c = "%s|%s|%s|%s%s|g%d" % (
            topo,
            "orth" if o.get("orthogonal", True) else "nonorth",
            o.get("psi_interpolation_method", "spline"),
            s,
            f,
            int(o.get("y_boundary_guards", 0)),
        )
        if int(spec.get("np") or 1) > 1:
            c += "|np%d" % int(spec["np"])  # built by worker processes
        return c
    if kind == "circ":
        return "circ|%s|g%d" % ("orth" if o.get("orthogonal", True) else "nonorth", int(o.get("y_boundary_guards", 0)))
    if kind == "torpex":
        return "torpex|%s" % spec.get("tag", "")
    return kind


def psi_row(region, loc):
    """psi_vals entries belonging to the rows of array location loc."""
    pv = np.asarray(region.psi_vals)
    if loc in ("centre", "ylow"):
        return pv[1::2]
    return pv[0::2]


def pinned_mask(region):
    """Boolean mask over region.Rxy.corners marking the corners that fillRZ is
    documented to pin to an X-point - derived from the *positions* (exact equality
    with an X-point of the equilibrium), not from the region's bookkeeping."""
    eq = region.meshParent.equilibrium
    xs = getattr(eq, "x_points", [])
    m = np.zeros(region.Rxy.corners.shape, bool)
    for xp in xs:
        m |= (region.Rxy.corners == xp.R) & (region.Zxy.corners == xp.Z)
    return m


def own_last_yface(region):
    """R, Z of the region's own last y-face points (centre rows and corner rows)
    taken from the contours, i.e. before getRZBoundary overwrote the arrays with the
    upper neighbour's values."""
    Ry = np.array([c[2 * region.ny].R for c in region.contours[1::2]])
    Zy = np.array([c[2 * region.ny].Z for c in region.contours[1::2]])
    Rc = np.array([c[2 * region.ny].R for c in region.contours[0::2]])
    Zc = np.array([c[2 * region.ny].Z for c in region.contours[0::2]])
    return Ry, Zy, Rc, Zc


def contour_points(c):
    return np.array([[p.R, p.Z] for p in c])


def rel(a, b, floor=0.0):
    a = np.asarray(a, float)
    b = np.asarray(b, float)
    return np.abs(a - b) / np.maximum(np.abs(b), floor if floor else 1e-300)


def amax(x):
    x = np.asarray(x, float)
    if x.size == 0:
        return 0.0
    if np.any(np.isnan(x)):
        return float("nan")
    return float(np.max(x))


def argmax_where(x):
    x = np.asarray(x, float)
    if x.size == 0:
        return None
    i = np.unravel_index(int(np.nanargmax(np.where(np.isnan(x), np.inf, x))), x.shape)
    return [int(k) for k in i]


def psi_box(eq):
    """(Rmin, Rmax, Zmin, Zmax) of the tabulated psi data, or None for an analytic
    equilibrium.  Outside this box the interpolants clamp the coordinates: psi is constant
    along the outward normal while the derivative routines still return the boundary
    derivative, so 'the derivative of the interpolated psi' is not defined there and the
    derivative-based oracles leave such points out (and count them)."""
    try:
        b = tuple(float(getattr(eq, k)) for k in ("Rmin", "Rmax", "Zmin", "Zmax"))
    except (AttributeError, TypeError):
        return None
    if not all(np.isfinite(b)):
        return None
    return b


def inbox(eq, R, Z, margin=0.0):
    """Boolean array: (R,Z) at least `margin` inside the psi data box (all True without a box)."""
    R = np.asarray(R, float)
    Z = np.asarray(Z, float)
    b = psi_box(eq)
    if b is None:
        return np.ones(np.broadcast(R, Z).shape, bool)
    return (R >= b[0] + margin) & (R <= b[1] - margin) & (Z >= b[2] + margin) & (Z <= b[3] - margin)


def cellbox(eq, region, margin=0.0):
    """(nx, ny) mask of the cells whose centre, faces and corners all lie inside the psi data box."""
    m = inbox(eq, region.Rxy.centre, region.Zxy.centre, margin)
    mx = inbox(eq, region.Rxy.xlow, region.Zxy.xlow, margin)
    my = inbox(eq, region.Rxy.ylow, region.Zxy.ylow, margin)
    mc = inbox(eq, region.Rxy.corners, region.Zxy.corners, margin)
    return m & mx[:-1] & mx[1:] & my[:, :-1] & my[:, 1:] & mc[:-1, :-1] & mc[1:, :-1] & mc[:-1, 1:] & mc[1:, 1:]
