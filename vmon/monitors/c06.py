"""C06  zShift, ShiftAngle, dphidy and ShiftTorsion follow the field lines."""

import numpy as np

from .. import oracles
from ..gridutil import amax, argmax_where, case_class, contour_points, inbox
from ..rec import rec

PROPERTY = "C06"


def applies(spec):
    return spec.get("kind", "tok") in ("tok", "circ", "torpex")


def nu_function(cap):
    """Bt/(R |Bp|) = fpol/(R |grad psi|) with fpol from the analytic family (tokamak
    cases) and grad psi from finite differences of the interpolant."""
    eq, fam = cap.eq, cap.fam
    psi = eq.psi
    L = oracles.length_scale(eq)
    if fam is not None:
        from .c03 import transform

        pf, ff = transform(cap.spec)
        pa, pb = pf * fam.psi_axis, pf * fam.psi_bdry
        if fam.fs == 0:
            return None

        def F(p):
            return ff * fam.F_of_psinorm((p - pa) / (pb - pa))

    else:

        def F(p):
            return eq.fpol(p)

    def nu(R, Z):
        gR, gZ = oracles.fd_grad(psi, R, Z, h=1e-4 * L)
        return F(psi(R, Z)) / (R * np.hypot(gR, gZ))

    return nu


def run(cap, levels=4):
    out = []
    cls = case_class(cap.spec)
    eq, mesh, nc = cap.eq, cap.mesh, cap.nc
    psi = eq.psi
    Nfine = float(mesh.user_options.finecontour_Nfine)
    scale = (100.0 / Nfine) ** 2
    nu = nu_function(cap)
    if nu is None:
        z = max(amax(np.abs(nc["zShift"])), amax(np.abs(nc["dphidy"])))
        out.append(rec("no toroidal field: zShift=dphidy=0", cls, nc["zShift"].size, z, 0.0))
        return out
    cache = {}

    def T(region, ic):
        k = (region.myID, ic)
        if k not in cache:
            c = region.contours[ic]
            pts = contour_points(c)
            cache[k] = oracles.fieldline_segments(psi, nu, pts[:, 0], pts[:, 1], c.psival, levels=levels)
        return cache[k]

    worst = 0.0
    where = None
    npts = 0
    jump = 0.0
    njoin = 0
    wsa = 0.0
    nsa = 0
    wsa_q = 0.0
    nsep_skipped = [0]
    nbox_skipped = [0]
    Lbox = oracles.length_scale(eq)
    for group in mesh.y_groups:
        first = group[0]
        periodic = first.connections["lower"] is not None
        for loc_c, loc_y, off in (("centre", "ylow", 1), ("xlow", "corners", 0)):
            nrow = getattr(first.zShift, loc_c).shape[0]
            for i in range(nrow):
                ic = 2 * i + off
                acc = 0.0
                pv = first.contours[ic].psival
                if any(abs(pv - ps) <= 1e-9 * max(1.0, abs(ps)) for ps in getattr(eq, "psi_sep", [])) and len(getattr(eq, "x_points", [])) > 0:
                    # the field-line integral diverges logarithmically on a separatrix
                    nsep_skipped[0] += 1
                    continue
                # a chain with a point outside the psi data box: |grad psi| of the interpolated
                # psi is not defined there (gridutil.psi_box), so the oracle has no integrand
                if not all(bool(np.all(inbox(eq, *contour_points(r.contours[ic]).T, margin=2e-4 * Lbox))) for r in group):
                    nbox_skipped[0] += 1
                    continue
                total = sum(float(np.sum(np.abs(T(r, ic)))) for r in group)
                tol = 5e-3 * scale * total + 1e-9
                prev_last = None
                for k, region in enumerate(group):
                    c = region.contours[ic]
                    t = T(region, ic)
                    cum = np.concatenate([[0.0], np.cumsum(t)])
                    cum = cum - cum[c.startInd] if k == 0 else cum + acc
                    acc = cum[-1]
                    code = np.empty(len(c))
                    code[0::2] = getattr(region.zShift, loc_y)[i]
                    code[1::2] = getattr(region.zShift, loc_c)[i]
                    e = np.abs(code - cum) / tol
                    npts += e.size
                    if amax(e) > worst or amax(e) != amax(e):
                        worst = amax(e)
                        where = {"region": region.name, "row": i, "loc": loc_c, "index": argmax_where(e), "code": float(code[argmax_where(e)[0]]), "oracle": float(cum[argmax_where(e)[0]])}
                    if prev_last is not None:
                        jump = max(jump, abs(code[0] - prev_last))
                        njoin += 1
                    prev_last = code[-1]
                if periodic and loc_c in ("centre", "xlow"):
                    sa = getattr(first.ShiftAngle, loc_c)[i, 0]
                    wsa = max(wsa, abs(sa - acc) / tol)
                    nsa += 1
                    # the single jump at the closing join equals ShiftAngle
                    last = group[-1]
                    zl = getattr(last.zShift, loc_y)[i, -1]
                    z0 = getattr(first.zShift, loc_y)[i, 0]
                    jump_close = zl - z0
                    wsa = max(wsa, abs(jump_close - sa) / tol)
                    if cap.spec.get("kind") == "circ":
                        o = eq.user_options
                        c0 = first.contours[ic][0]
                        r = np.hypot(c0.R - o.R0, c0.Z)
                        qc = o.q_coefficients if hasattr(o.q_coefficients, "__len__") else [o.q_coefficients]
                        q = sum(a * r ** (2 * n) for n, a in enumerate(qc))
                        wsa_q = max(wsa_q, abs(sa / (2 * np.pi * q) - 1.0))
    out.append(rec("zShift=integral Bt/(R|Bp|) ds from the chain start", cls, npts, worst, 1.0, where=where, note="residual in units of 5e-3*(100/Nfine)^2*|total|+1e-9"))
    out.append(rec("separatrix contours excluded (integral singular at the X-point)", cls, nsep_skipped[0], 0, 0))
    if nbox_skipped[0]:
        out.append(rec("informational: chains with points outside the psi data box left out", cls + "|outside-box", nbox_skipped[0], 0, 0))
    out.append(rec("zShift continuous across joins (except the closing core join)", cls, njoin, jump, 1e-10))
    if nsa:
        out.append(rec("ShiftAngle=loop integral=jump at the closing join", cls, nsa, wsa, 1.0))
        if cap.spec.get("kind") == "circ":
            out.append(rec("ShiftAngle=2*pi*q (circular)", cls, nsa, wsa_q, 5e-3 * scale))
    # ---- identities on the file arrays ---------------------------------------------------
    for suf in ("", "_xlow", "_ylow"):
        exp = nc["hy" + suf] * nc["Btxy" + suf] / (nc["Bpxy" + suf] * nc["Rxy" + suf])
        out.append(rec("dphidy=hy*Btxy/(Bpxy*Rxy)" + suf, cls, exp.size, amax(np.abs(nc["dphidy" + suf] - exp) / (np.abs(exp) + 1e-300)), 1e-12))
    # ShiftTorsion = centred x-derivative of dphidy
    wst = {"centre": 0.0, "ylow": 0.0}
    nst = {"centre": 0, "ylow": 0}
    bad_xlow = 0
    n_xlow = 0
    for region in mesh.regions.values():
        d = region.dphidy
        exp_c = (d.xlow[1:] - d.xlow[:-1]) / region.dx.centre
        exp_y = (d.corners[1:] - d.corners[:-1]) / region.dx.ylow
        sc = max(amax(np.abs(exp_c)), 1e-300)
        wst["centre"] = max(wst["centre"], amax(np.abs(region.ShiftTorsion.centre - exp_c)) / sc)
        wst["ylow"] = max(wst["ylow"], amax(np.abs(region.ShiftTorsion.ylow - exp_y)) / sc)
        nst["centre"] += exp_c.size
        nst["ylow"] += exp_y.size
        # xlow: (centre[i]-centre[i-1])/dx on interior faces, dx = psi difference of the centres
        pv = np.asarray(region.psi_vals)
        dxx = (pv[3::2] - pv[1:-2:2])[:, None]
        exp_x = (d.centre[1:] - d.centre[:-1]) / dxx
        got = region.ShiftTorsion.xlow[1:-1]
        n_xlow += got.size
        with np.errstate(all="ignore"):
            bad_xlow += int((~(np.abs(got - exp_x) <= 1e-9 * np.abs(exp_x) + 1e-12)).sum())
    for k in ("centre", "ylow"):
        out.append(rec("ShiftTorsion=d(dphidy)/dx." + k, cls, nst[k], wst[k], 1e-12))
    allnf = bool(np.all(~np.isfinite(nc["ShiftTorsion_xlow"])))
    out.append(rec("ShiftTorsion=d(dphidy)/dx.xlow", cls, n_xlow, bad_xlow, 0, sig="ShiftTorsion_xlow non-finite everywhere (dx at xlow is never set)" if allnf else None))
    return out
