"""C14 (file part)  The option set embedded in a grid file is the one in force when the grid was
written: after redistributePoints() the embedded YAML carries the non-orthogonal settings the
points were actually distributed with, so that regenerating from the embedded inputs gives the
same grid."""

from ..gridutil import case_class
from ..rec import rec

PROPERTY = "C14"


def applies(spec):
    return bool(spec.get("history"))


def run(cap):
    import yaml

    out = []
    cls = case_class(cap.spec) + "|embedded options after %d redistributePoints" % len(cap.spec.get("history", []))
    text = cap.nc["__strings__"].get("hypnotoad_inputs_yaml")
    if text is None:
        out.append(rec("embedded YAML present", cls, 1, 1, 0))
        return out
    y = yaml.safe_load(text) or {}
    last = cap.spec["history"][-1]
    # (a) the settings given last are the ones recorded
    bad = ["%s: file %r, given %r" % (k, y.get(k), v) for k, v in last.items() if y.get(k) != v]
    out.append(rec("embedded YAML records the non-orthogonal settings given last", cls, len(last), len(bad), 0, sig="; ".join(bad)[:300]))
    # (b) every recorded nonorthogonal_* value is the one each region actually used
    bad2 = []
    n = 0
    for r in cap.mesh.regions.values():
        o = r.equilibriumRegion.nonorthogonal_options
        for k in o:
            if k in y:
                n += 1
                if y[k] != o[k]:
                    bad2.append("%s %s: file %r, region %r" % (r.name, k, y[k], o[k]))
    out.append(rec("embedded non-orthogonal options = the options every mesh region holds", cls, n, len(bad2), 0, sig="; ".join(bad2[:4])[:300]))
    return out
