"""C09 (grid part)  Radial psi grid of every generated grid."""

import numpy as np

from .. import oracles
from ..gridutil import amax, case_class
from ..rec import rec

PROPERTY = "C09"


def applies(spec):
    return spec.get("kind", "tok") in ("tok", "circ", "torpex")


def run(cap):
    out = []
    cls = case_class(cap.spec)
    eq, mesh, nc, fam = cap.eq, cap.mesh, cap.nc, cap.fam
    nmono = 0
    nreg = 0
    share = 0.0
    nshare = 0
    wdx = 0.0
    wmid = 0.0
    for rid, region in mesh.regions.items():
        pv = np.asarray(region.psi_vals, float)
        nreg += 1
        d = np.diff(pv)
        if not (np.all(d > 0) or np.all(d < 0)):
            nmono += 1
        oid = region.connections["outer"]
        if oid is not None:
            # relative to the psi range of the two segments: the closed forms evaluate 'lower + ...(n)'
            # and two of the five branches fix a coefficient with a root finder (rtol 1e-10), so the end
            # of one segment equals the start of the next to ~1e-14 of the range (133 ulp seen), never bitwise
            share = max(share, abs(pv[-1] - mesh.regions[oid].psi_vals[0]) / max(abs(pv[-1] - pv[0]), abs(mesh.regions[oid].psi_vals[-1] - mesh.regions[oid].psi_vals[0]), 1e-300))
            nshare += 1
        wdx = max(wdx, amax(np.abs(region.dx.centre[:, 0] - (pv[2::2] - pv[:-2:2]))) / float(np.spacing(np.abs(pv).max())))
        wmid = max(wmid, amax(np.abs(pv[1::2] - 0.5 * (pv[:-1:2] + pv[2::2])) / np.abs(pv[-1] - pv[0])))
    out.append(rec("psi_vals strictly monotone in every region", cls, nreg, nmono, 0))
    out.append(rec("adjoining radial segments share the boundary value", cls, nshare, share, 1e-9, note="difference relative to the psi range of the segments (same bound as the end-value contract on getSmoothMonotonicGridFunc)"))
    out.append(rec("dx=psi difference of the x-faces (memory)", cls, nreg, wdx, 4.0, note="in units of the floating-point spacing of the largest |psi|"))
    out.append(rec("cell centres at the mid-points of the faces (in psi)", cls, nreg, wmid, 1e-15))
    # file: dx against psi evaluated at the x-face positions in the file
    psi = eq.psi
    px = psi(nc["Rxy_xlow"], nc["Zxy_xlow"])
    nx = px.shape[0]
    tau = 1.5 * float(mesh.user_options.refine_atol) * max(1.0, float(np.abs(px).max()))
    # x+1 face of the last cell of each region row: use lower_right corner is a y-face, so
    # compare inside the x range only
    e = np.abs(nc["dx"][:-1] - (px[1:] - px[:-1]))
    # rows at a radial region boundary still are consecutive faces of the same flux tube
    out.append(rec("file: dx=psi(xlow[i+1])-psi(xlow[i])", cls, e.size, amax(e) / (2 * tau), 1.0))
    out.append(rec("file: dx=psixy_xlow[i+1]-psixy_xlow[i]", cls, e.size, amax(np.abs(nc["dx"][:-1] - (nc["psixy_xlow"][1:] - nc["psixy_xlow"][:-1]))) / (2 * tau), 1.0))
    # ---- requested limits, resolved independently (tokamak cases) -------------------------
    if cap.spec.get("kind", "tok") == "tok":
        from .c03 import newton_crit, transform

        pf, ff = transform(cap.spec)
        L = oracles.length_scale(eq)
        o = cap.spec.get("opts", {})
        oa = fam.critical_points()[0][0]
        xs = fam.critical_points()[1]
        Ro, Zo = newton_crit(psi, oa[0], oa[1], L)
        p_ax = float(psi(Ro, Zo))
        xps = []
        for x in xs[:2]:
            Rx, Zx = newton_crit(psi, x[0], x[1], L)
            xps.append((Rx, Zx, float(psi(Rx, Zx))))
        xps.sort(key=lambda t: abs(t[2] - p_ax))
        p_sep = xps[0][2]

        def lim(name_psi, name_norm, default_norm):
            v = o.get(name_psi)
            if v is not None:
                return float(v)
            n = o.get(name_norm, default_norm)
            return p_ax + float(n) * (p_sep - p_ax)

        pn_core = o.get("psinorm_core", 0.9)
        pn_sol = o.get("psinorm_sol", 1.1)
        pn_pf = o.get("psinorm_pf", pn_core)
        want = {
            "core": lim("psi_core", "psinorm_core", 0.9),
            "sol": lim("psi_sol", "psinorm_sol", 1.1),
            "sol_inner": lim("psi_sol_inner", "psinorm_sol_inner", pn_sol),
            "pf_lower": lim("psi_pf_lower", "psinorm_pf_lower", pn_pf),
            "pf_upper": lim("psi_pf_upper", "psinorm_pf_upper", pn_pf),
        }
        two = len(getattr(eq, "x_points", [])) == 2
        prange = abs(p_sep - p_ax)
        werr = 0.0
        nlim = 0
        wsep = 0.0
        nsep = 0
        from ..gridutil import pinned_mask

        connected = two and getattr(eq, "double_null_type", "") == "connected"

        def xp_psi(R, Z):
            if connected:
                # documented: a connected double null uses the primary separatrix for both X-points
                return xps[0][2]
            return min(xps, key=lambda t: (t[0] - R) ** 2 + (t[1] - Z) ** 2)[2]

        for rid, region in mesh.regions.items():
            name = region.equilibriumRegion.name
            pv = np.asarray(region.psi_vals, float)
            if region.connections["inner"] is None:
                if "core" in name:
                    exp = want["core"]
                else:
                    exp = want["pf_lower"] if "lower" in name else want["pf_upper"]
                werr = max(werr, abs(pv[0] - exp) / prange)
                nlim += 1
            if region.connections["outer"] is None:
                inner_side = two and ("inner" in name)
                exp = want["sol_inner"] if inner_side else want["sol"]
                werr = max(werr, abs(pv[-1] - exp) / prange)
                nlim += 1
            # a radial boundary that carries a pinned X-point corner is that X-point's separatrix
            pm = pinned_mask(region)
            for row, val in ((0, pv[0]), (-1, pv[-1])):
                jj = np.nonzero(pm[row])[0]
                if len(jj):
                    wsep = max(wsep, abs(val - xp_psi(region.Rxy.corners[row, jj[0]], region.Zxy.corners[row, jj[0]])) / prange)
                    nsep += 1
        thr = 1e-6 if mesh.user_options.psi_interpolation_method == "spline" else 5e-4
        out.append(rec("radial limits = requested psi_*/psinorm_* values", cls, nlim, werr, thr, note="relative to |psi_sep-psi_axis|; X-/O-point psi from the oracle's own Newton search on eq.psi; dct: critical points come from a spline, bound = interpolation error between the methods"))
        out.append(rec("radial boundaries through an X-point = that X-point's psi", cls, nsep, wsep, thr))
        # equal face spacing on both sides of each separatrix (gradient equal, curvature 0)
        wg = 0.0
        ng = 0
        for rid, region in mesh.regions.items():
            oid = region.connections["outer"]
            if oid is None:
                continue
            a = np.asarray(region.psi_vals, float)
            b = np.asarray(mesh.regions[oid].psi_vals, float)
            # only where both segments have >= 4 cells: with fewer the third-order term of the
            # spacing function is not small compared with the cell width
            if len(a) >= 9 and len(b) >= 9:
                din = a[-1] - a[-3]
                dout = b[2] - b[0]
                wg = max(wg, abs(din / dout - 1.0))
                ng += 1
        if ng:
            out.append(rec("cell width continuous across the separatrix", cls, ng, wg, 0.5, note="last cell inside vs first cell outside: equal up to third-order terms of the spacing function"))
    return out
