"""C05  hy and poloidal_distance are true arc lengths along flux surfaces."""

import numpy as np

from .. import oracles
from ..boutindex import Topo
from ..gridutil import amax, argmax_where, case_class, contour_points
from ..rec import rec

PROPERTY = "C05"


def applies(spec):
    return spec.get("kind", "tok") in ("tok", "circ", "torpex")


def chain_start(mesh, group):
    """The region a chain of y-connected regions starts from, decided by the oracle:
    open chain -> the region without a lower neighbour; closed chain -> the region
    holding the first core cell in y-index order."""
    for r in group:
        if r.connections["lower"] is None:
            return r
    return min(group, key=lambda r: mesh.region_indices[r.myID][1].start)


def ordered_chain(mesh, group):
    start = chain_start(mesh, group)
    chain = [start]
    r = start
    while True:
        nid = r.connections["upper"]
        if nid is None:
            break
        r = mesh.regions[nid]
        if r is start:
            break
        chain.append(r)
    return chain


def seg_lengths(psi, c, levels=5):
    pts = contour_points(c)
    return oracles.arclen_segments(psi, pts[:, 0], pts[:, 1], c.psival, levels=levels)


def chord_error_estimate(c, s, Nfine):
    """Second-order chord error of an Nfine-point polyline on this contour:
    (ds_fine * kappa)^2 / 24 per segment, with the curvature kappa estimated from the
    turning angle between consecutive grid-point chords."""
    pts = contour_points(c)
    e = c.endInd if c.endInd >= 0 else len(c) + c.endInd
    Lc = float(np.sum(s[c.startInd : e]))
    ds_f = Lc / max(Nfine - 1.0, 1.0)
    d = np.diff(pts, axis=0)
    ang = np.arctan2(d[:, 1], d[:, 0])
    turn = np.abs((np.diff(ang) + np.pi) % (2 * np.pi) - np.pi)
    kap = turn / (0.5 * (s[1:] + s[:-1]))
    kap = np.concatenate([[kap[0]], 0.5 * (kap[1:] + kap[:-1]), [kap[-1]]]) if len(kap) > 1 else np.full(len(s), kap[0] if len(kap) else 0.0)
    return (ds_f * kap) ** 2 / 24.0


def run(cap, levels=5, collect=None):
    out = []
    cls = case_class(cap.spec)
    eq, mesh, nc = cap.eq, cap.mesh, cap.nc
    psi = eq.psi
    Nfine = float(mesh.user_options.finecontour_Nfine)
    scale = (100.0 / Nfine) ** 2
    segs = {}  # (region id, contour index) -> oracle segment lengths

    def S(region, ic):
        k = (region.myID, ic)
        if k not in segs:
            segs[k] = seg_lengths(psi, region.contours[ic], levels)
        return segs[k]

    from ..gridutil import inbox

    inb_cache = {}
    nbox = [0]

    def inb(region, ic):
        """every point of this contour inside the box of the psi data (beyond it the interpolated psi is
        clamped / periodic and the oracle cannot follow the flux surface: gridutil.psi_box)"""
        k = (region.myID, ic)
        if k not in inb_cache:
            pts = contour_points(region.contours[ic])
            inb_cache[k] = bool(np.all(inbox(eq, pts[:, 0], pts[:, 1], margin=1e-3)))
        return inb_cache[k]

    rel_c, rel_y, rel_join = [], [], []
    chord = []
    wh = {"worst": 0.0, "where": None}
    npos = 0
    nneg = 0
    for rid, region in mesh.regions.items():
        dy = float(np.asarray(region.dy.centre).flat[0])
        for loc_c, loc_y, off in (("centre", "ylow", 1), ("xlow", "corners", 0)):
            hyc = getattr(region.hy, loc_c)
            hyy = getattr(region.hy, loc_y)
            npos += hyc.size + hyy.size
            nneg += int((~(hyc > 0)).sum() + (~(hyy > 0)).sum())
            nrow = hyc.shape[0]
            for i in range(nrow):
                ic = 2 * i + off
                if not inb(region, ic):
                    nbox[0] += 1
                    continue
                s = S(region, ic)
                chord.append(chord_error_estimate(region.contours[ic], s, Nfine))
                arc_c = s[0::2] + s[1::2]  # face j -> face j+1
                e = np.abs(hyc[i] * dy / arc_c - 1.0)
                rel_c.append(e)
                if amax(e) > wh["worst"]:
                    wh = {"worst": amax(e), "where": {"region": region.name, "loc": loc_c, "row": i, "index": argmax_where(e)}}
                arc_y = s[1:-1:2] + s[2::2]  # centre j-1 -> centre j, j=1..ny-1
                rel_y.append(np.abs(hyy[i, 1:-1] * dy / arc_y - 1.0))
                up = region.connections["upper"]
                if up is not None and inb(mesh.regions[up], ic):
                    su = S(mesh.regions[up], ic)
                    rel_join.append(np.abs(hyy[i, -1] * dy / (s[-1] + su[0]) - 1.0))
                lo = region.connections["lower"]
                if lo is not None and inb(mesh.regions[lo], ic):
                    sl = S(mesh.regions[lo], ic)
                    rel_join.append(np.abs(hyy[i, 0] * dy / (s[0] + sl[-1]) - 1.0))
    out.append(rec("hy>0 (all locations)", cls, npos, nneg, 0))
    if nbox[0]:
        out.append(rec("informational: contours with points outside the psi data box left out of the arc-length oracles", cls + "|outside-box", nbox[0], 0, 0))
    for name, lst, in (("hy*dy=arc(face,face) centre/xlow", rel_c), ("hy*dy=arc(centre,centre) interior y-faces", rel_y), ("hy*dy=arc across region joins", rel_join)):
        if not lst:
            continue
        a = np.concatenate([np.atleast_1d(x) for x in lst])
        out.append(rec(name + " [max]", cls, a.size, amax(a), 3e-2 * scale, where=wh["where"] if "centre/xlow" in name else None, note="relative; bound 3e-2*(100/Nfine)^2"))
        if "joins" not in name:
            # (dct: the interpolant of the 33x33 tables of the corpus is itself less smooth between the
            # nodes; 1.4e-4 seen on one random thorough case, the quick dct cases stay below 1e-4)
            dct = str(mesh.user_options.psi_interpolation_method) == "dct"
            med_thr = max((2e-4 if dct else 1e-4) * scale, 3.0 * float(np.median(np.concatenate(chord))))
            out.append(rec(name + " [median]", cls, a.size, float(np.median(a)), med_thr, note="relative; bound max(1e-4*(100/Nfine)^2, 3 x median second-order chord error of an Nfine-point polyline)"))
    if collect is not None:
        collect["rel_c"] = np.concatenate(rel_c)

    # ---- poloidal_distance along every chain -------------------------------------------
    worst_pd = 0.0
    worst_mono = 0
    npd = 0
    worst_zero = 0.0
    worst_total = 0.0
    ntot = 0
    jump = 0.0
    origin_bad = []
    for group in mesh.y_groups:
        chain = ordered_chain(mesh, group)
        periodic = chain[0].connections["lower"] is not None
        code_first = group[0]
        if code_first is not chain[0]:
            origin_bad.append("%s (code starts at %s)" % (chain[0].name, code_first.name))
        for loc_c, loc_y, off in (("centre", "ylow", 1), ("xlow", "corners", 0)):
            nrow = getattr(chain[0].poloidal_distance, loc_c).shape[0]
            for i in range(nrow):
                ic = 2 * i + off
                if not all(inb(r, ic) for r in chain):
                    nbox[0] += 1
                    continue
                tot = sum(float(np.sum(S(r, ic)[r.contours[ic].startInd : (r.contours[ic].endInd if r.contours[ic].endInd >= 0 else len(r.contours[ic]) + r.contours[ic].endInd)])) for r in chain)
                prev_last = None
                for k, region in enumerate(chain):
                    c = region.contours[ic]
                    s = S(region, ic)
                    cum = np.concatenate([[0.0], np.cumsum(s)])
                    code = np.empty(len(c))
                    code[0::2] = getattr(region.poloidal_distance, loc_y)[i]
                    code[1::2] = getattr(region.poloidal_distance, loc_c)[i]
                    # increments inside the region against the oracle
                    worst_pd = max(worst_pd, amax(np.abs((code - code[c.startInd]) - (cum - cum[c.startInd]))) / tot)
                    worst_mono += int((np.diff(code) <= 0).sum())
                    npd += len(code)
                    if k == 0 and code_first is chain[0]:
                        worst_zero = max(worst_zero, abs(code[c.startInd]))
                    if prev_last is not None and region is not code_first:
                        jump = max(jump, abs(code[0] - prev_last))
                    prev_last = code[-1]
                if periodic:
                    tp = getattr(code_first.total_poloidal_distance, loc_c)[i, 0]
                    worst_total = max(worst_total, abs(tp / tot - 1.0))
                    ntot += 1
    out.append(rec("poloidal_distance=oracle arc length from the chain start", cls, npd, worst_pd, 3e-3 * scale, note="relative to the chain length"))
    out.append(rec("poloidal_distance strictly increasing along y", cls, npd, worst_mono, 0))
    out.append(rec("poloidal_distance continuous across joins", cls, npd, jump, 1e-12))
    out.append(rec("poloidal_distance=0 at the chain start (target / first core face)", cls, len(mesh.y_groups), worst_zero, 1e-12))
    out.append(rec("chain origin = lower target / first core cell in y-index order", cls, len(mesh.y_groups), len(origin_bad), 0, sig=("closed-surface chain starts at a different X-point join: " + "; ".join(sorted(set(origin_bad)))[:200]) if origin_bad else None))
    if ntot:
        out.append(rec("total_poloidal_distance=circumference", cls, ntot, worst_total, 3e-3 * scale))

    # ---- file level ---------------------------------------------------------------------
    t = Topo(nc)
    pd = nc["poloidal_distance"]
    pdy = nc["poloidal_distance_ylow"]
    up = t.up_map()
    bad = 0
    nn = 0
    for (x, f), g in up.items():
        nn += 1
        if not (pdy[x, f] < pd[x, f]):
            bad += 1
        if g is not None and not t.core_x() > x:  # open surfaces: strictly increasing to the next face
            if not (pd[x, f] < pdy[x, g]):
                bad += 1
    out.append(rec("file: poloidal_distance_ylow < centre < next face (open surfaces)", cls, nn, bad, 0))
    # total_poloidal_distance NaN pattern is C12; here: equals last core face value + remaining
    # (F7) hy in the file vs arc between the *file's* y-faces (the upper neighbour's point)
    return out
