"""C12 (file part)  Validator applied to every grid file any case writes.

Documented variable set and shapes (doc/grid-file.rst), finiteness with the documented
NaN exceptions, hy>0, dy>0, no folded cell.
"""

import numpy as np

from ..gridutil import case_class
from ..rec import rec

PROPERTY = "C12"

SCALARS_INT = ["nx", "ny", "y_boundary_guards", "ixseps1", "ixseps2", "jyseps1_1", "jyseps2_1", "jyseps1_2", "jyseps2_2", "ny_inner"]
SCALARS_FLOAT = ["Bt_axis"]
F2D = [
    "Rxy", "Zxy", "dx", "dy", "psixy", "Brxy", "Bzxy", "Bpxy", "Btxy", "Bxy", "poloidal_distance", "zShift",
    "ShiftTorsion", "hy", "dphidy", "g11", "g22", "g33", "g12", "g13", "g23", "g_11", "g_22", "g_33", "g_12",
    "g_13", "g_23", "J", "curl_bOverB_x", "curl_bOverB_y", "curl_bOverB_z", "bxcvx", "bxcvy", "bxcvz",
    "y-coord", "theta", "chi",
]  # fmt: skip
CORNERS = ["corners", "lower_right_corners", "upper_right_corners", "upper_left_corners"]
X1D = ["total_poloidal_distance", "ShiftAngle"]
STRINGS = ["curvature_type", "hypnotoad_inputs", "hypnotoad_inputs_yaml", "Python_version", "module_versions"]


def applies(spec):
    return True


def core_masks(nc):
    """(core_x, core_y_file): boolean masks of closed-field-line x rows and core y
    columns in file indexing, from the topology integers (BOUT++ meaning)."""
    nx, nyf = nc["Rxy"].shape
    ny = int(nc["ny"])
    myg = int(nc["y_boundary_guards"])
    ix1, ix2 = int(nc["ixseps1"]), int(nc["ixseps2"])
    j11, j21, j12, j22 = (int(nc[k]) for k in ("jyseps1_1", "jyseps2_1", "jyseps1_2", "jyseps2_2"))
    nyi = int(nc["ny_inner"])
    cx = np.arange(nx) < min(ix1, ix2)
    ycore = np.zeros(ny, bool)
    j = np.arange(ny)
    if j21 == j12:  # single null / limiter / core only
        ycore |= (j > j11) & (j <= j22)
        two = False
    else:
        ycore |= (j > j11) & (j <= j21)
        ycore |= (j > j12) & (j <= j22)
        two = True
    # map BOUT y (no guards) -> file y
    nguard_blocks = (nyf - ny) // myg if myg else 0
    fy = np.zeros(nyf, bool)
    for jj in range(ny):
        if not ycore[jj]:
            continue
        if two and nguard_blocks == 4:
            f = jj + myg if jj < nyi else jj + 3 * myg
        elif nguard_blocks >= 1:
            f = jj + myg
        else:
            f = jj
        if 0 <= f < nyf:
            fy[f] = True
    if not fy.any():
        # no closed field lines at all (isolated X-point: every y column is a leg)
        cx = np.zeros(nx, bool)
    return cx, fy


def validate_file(nc, cls, orthogonal=None, has_pressure=None, has_wall=True, check_folds=True, placement_accuracy=1e-6):
    out = []
    missing = []
    for k in SCALARS_INT + SCALARS_FLOAT:
        if k not in nc:
            missing.append(k)
    for k in STRINGS:
        if k not in nc["__strings__"]:
            missing.append(k)
    names2d = []
    for base in F2D:
        for suf in ("", "_xlow", "_ylow"):
            names2d.append(base + suf)
    if orthogonal:
        names2d += ["hthe", "hthe_xlow", "hthe_ylow"]
    if has_pressure:
        names2d += ["pressure", "pressure_xlow", "pressure_ylow"]
    names2d.append("penalty_mask")
    for c in CORNERS:
        names2d += ["Rxy_" + c, "Zxy_" + c]
    for k in names2d + X1D:
        if k not in nc:
            missing.append(k)
    if has_wall:
        for k in ("closed_wall_R", "closed_wall_Z"):
            if k not in nc:
                missing.append(k)
    out.append(rec("file.documented_variables_present", cls, len(names2d) + len(X1D) + len(SCALARS_INT), len(missing), 0, sig=",".join(sorted(missing))[:300]))
    if "Rxy" not in nc or "nx" not in nc:
        return out
    nx, nyf = nc["Rxy"].shape
    ny = int(nc["ny"])
    myg = int(nc["y_boundary_guards"])
    bad_shape = []
    for k in names2d:
        if k in nc and nc[k].shape != (nx, nyf):
            bad_shape.append("%s%s" % (k, nc[k].shape))
    for k in X1D:
        if k in nc and nc[k].shape != (nx,):
            bad_shape.append("%s%s" % (k, nc[k].shape))
    if int(nc["nx"]) != nx:
        bad_shape.append("nx=%d vs %d" % (int(nc["nx"]), nx))
    if myg == 0:
        if nyf != ny:
            bad_shape.append("ny=%d vs %d (no guards)" % (ny, nyf))
    else:
        extra = nyf - ny
        if extra < 0 or extra % myg != 0 or extra // myg not in (0, 2, 4):
            bad_shape.append("ny=%d file=%d guards=%d" % (ny, nyf, myg))
    out.append(rec("file.shapes", cls, len(names2d) + len(X1D), len(bad_shape), 0, sig=";".join(bad_shape)[:300]))
    if bad_shape:
        return out
    # ---- finiteness -------------------------------------------------------------------
    cx, fy = core_masks(nc)
    core2d = cx[:, None] & fy[None, :]
    nonfinite = {}
    nchecked = 0
    for k in names2d:
        if k not in nc:
            continue
        a = nc[k]
        nchecked += a.size
        if k.startswith("chi"):
            # documented: undefined (NaN) on open field lines, defined in the core
            # (chi = 2 pi zShift/ShiftAngle: 0/0 when there is no toroidal field)
            if np.all(nc["ShiftAngle"][cx] == 0.0) and np.all(nc["zShift"] == 0.0):
                continue
            bad = int((~np.isfinite(a[core2d])).sum())
            notnan = int(np.isfinite(a[~core2d]).sum())
            if bad:
                nonfinite[k] = bad
            if notnan:
                nonfinite[k + ":finite_on_open_lines"] = notnan
        else:
            bad = int((~np.isfinite(a)).sum())
            if bad:
                nonfinite[k] = bad
    for k in X1D:
        a = nc[k]
        nchecked += a.size
        bad = int((~np.isfinite(a[cx])).sum())
        notnan = int(np.isfinite(a[~cx]).sum())
        if bad:
            nonfinite[k] = bad
        if notnan:
            nonfinite[k + ":finite_on_open_lines"] = notnan
    for k in SCALARS_FLOAT + ["psi_axis", "psi_bdry"]:
        if k in nc and not np.all(np.isfinite(nc[k])):
            nonfinite[k] = 1
    # one record per offending variable so that known findings can be keyed by mechanism
    if not nonfinite:
        out.append(rec("file.finite", cls, nchecked, 0, 0))
    else:
        for k, v in sorted(nonfinite.items()):
            allbad = k in nc and v == nc[k].size
            out.append(rec("file.finite", cls, nc[k].size if k in nc else v, v, 0, sig="%s nonfinite=%d%s" % (k, v, " (every value)" if allbad else "")))
    # ---- positivity ---------------------------------------------------------------------
    for k in ("hy", "hy_xlow", "hy_ylow", "dy", "dy_xlow", "dy_ylow"):
        a = nc[k]
        nb = int((~(a > 0)).sum())
        out.append(rec("file.positive." + k, cls, a.size, nb, 0))
    # dx has the sign of psi increasing/decreasing but never zero and one sign per file
    dxs = np.sign(nc["dx"])
    out.append(rec("file.dx_nonzero_one_sign", cls, dxs.size, int((dxs != dxs.flat[0]).sum()) + int((dxs == 0).sum()), 0))
    # ---- folded cells -------------------------------------------------------------------
    P = [np.stack([nc["Rxy_" + c], nc["Zxy_" + c]]) for c in ("corners", "lower_right_corners", "upper_right_corners", "upper_left_corners")]
    a, b, c_, d = P

    def tri(p, q, r):
        return 0.5 * ((q[0] - p[0]) * (r[1] - p[1]) - (q[1] - p[1]) * (r[0] - p[0]))

    area = tri(a, b, c_) + tri(a, c_, d)
    sgn = np.sign(area)
    ref = np.sign(np.median(area))
    # a bow-tie shows up as the two triangulations disagreeing in sign of a part
    t1, t2, t3, t4 = tri(a, b, c_), tri(a, c_, d), tri(a, b, d), tri(b, c_, d)
    bow = ((np.sign(t1) != ref) & (np.sign(t2) != ref)) | ((np.sign(t3) != ref) & (np.sign(t4) != ref))
    bad = (sgn != ref) | bow
    # a cell with an edge shorter than the accuracy to which points are placed along a contour
    # (FineContour interpolation, 1e-4 m at finecontour_Nfine=100, second order in 1/Nfine) is
    # degenerate by the choice of settings, not folded by the generator: counted, not judged
    edges = np.stack([np.hypot(*(q - p)) for p, q in ((a, b), (b, c_), (c_, d), (d, a))])
    thin = edges.min(axis=0) < 5 * placement_accuracy
    nthin = int((bad & thin).sum())
    bad = bad & ~thin
    nfold = int(bad.sum())
    wh = None
    if nfold:
        ii = np.argwhere(bad)
        wh = ii[:5].tolist()
    if check_folds:
        out.append(rec("file.no_folded_cell", cls, area.size, nfold, 0, where=wh, note="min |area| %.3g" % float(np.abs(area).min())))
        if nthin:
            out.append(rec("informational: inverted cells with an edge shorter than 5 x the point-placement accuracy (%.1e m)" % placement_accuracy, cls + "|thinner-than-accuracy", nthin, 0, 0))
    else:
        # follow_perpendicular_recover=True is the documented opt-in to "an incorrect grid ... useful
        # when adjusting settings": the geometry of such a grid is not judged, only counted
        out.append(rec("informational: folded cells in a grid made with follow_perpendicular_recover (documented as incorrect)", cls + "|recover-opt-in", area.size, 0, 0, note="%d folded" % nfold))
    return out


def run(cap):
    cls = cap.spec.get("c12_class") or case_class(cap.spec)
    nc = cap.nc
    if cap.mesh is not None:
        orth = bool(cap.mesh.user_options.orthogonal)
        has_p = hasattr(next(iter(cap.eq.regions.values())), "pressure")
        has_wall = hasattr(cap.eq, "closed_wallarray")
    else:
        import yaml

        y = yaml.safe_load(nc["__strings__"].get("hypnotoad_inputs_yaml", "{}")) or {}
        orth = bool(y.get("orthogonal", True))
        has_p = "pressure" in nc
        has_wall = True
    recover = bool((cap.spec.get("opts") or {}).get("follow_perpendicular_recover"))
    try:
        if cap.mesh is not None:
            nfine = float(cap.mesh.user_options.finecontour_Nfine)
        else:
            nfine = float(y.get("finecontour_Nfine", 1000))
    except Exception:  # noqa: BLE001
        nfine = 1000.0
    out = validate_file(nc, cls, orthogonal=orth, has_pressure=has_p, has_wall=has_wall, check_folds=not recover, placement_accuracy=1e-4 * (100.0 / nfine) ** 2)
    # sanity of a file produced from a hostile / shipped input: points on their flux
    # surfaces (file-level, needs the live equilibrium)
    if cap.mesh is not None and cap.spec.get("hostile") and not recover:
        import numpy as np

        psi = cap.eq.psi
        tau = 1.5 * float(cap.mesh.user_options.refine_atol)
        e = np.abs(psi(nc["Rxy"], nc["Zxy"]) - nc["psixy"]) / np.maximum(1.0, np.abs(nc["psixy"]))
        out.append(rec("hostile input accepted: psixy = psi(Rxy, Zxy)", cls, e.size, float(e.max()) / tau, 1.0))
    return out
