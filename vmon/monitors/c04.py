"""C04  Orthogonal grids are orthogonal: radial grid lines follow grad(psi)."""

import numpy as np

from .. import oracles
from ..gridutil import amax, argmax_where, case_class, cellbox, inbox
from ..rec import rec
from .c02 import xpoint_cells

PROPERTY = "C04"


def applies(spec):
    return spec.get("kind", "tok") in ("tok", "circ", "torpex") and bool(spec.get("opts", {}).get("orthogonal", True)) and spec.get("kind") != "torpex" or (spec.get("kind") == "torpex" and "nonorth" not in spec.get("file", ""))


def run(cap):
    out = []
    cls = case_class(cap.spec)
    eq, mesh, nc = cap.eq, cap.mesh, cap.nc
    if not mesh.user_options.orthogonal:
        return out
    psi = eq.psi
    L = oracles.length_scale(eq)
    o = mesh.user_options
    atol, rtol = float(o.follow_perpendicular_atol), float(o.follow_perpendicular_rtol)
    ratol = float(o.refine_atol)
    worst = 0.0
    where = None
    npts = 0
    nfail_oracle = 0
    nout = 0
    kinds = set()
    for rid, region in mesh.regions.items():
        cs = region.contours
        npol = len(cs[0])
        er = region.equilibriumRegion
        inside = region.radialIndex < er.separatrix_radial_index
        kinds.add("inside" if inside else "outside")
        P = np.array([[[p.R, p.Z] for p in c] for c in cs])  # (ncont, npol, 2)
        pv = np.asarray(region.psi_vals, float)
        for j in range(npol):
            # start from the contour whose point j is the skeleton point
            sk = er[j]
            d = np.hypot(P[:, j, 0] - sk.R, P[:, j, 1] - sk.Z)
            i0 = int(np.argmin(d))
            R0, Z0 = P[i0, j]
            inb = inbox(eq, P[:, j, 0], P[:, j, 1], margin=2e-4 * L)
            if not inb[i0]:
                nout += int((~inb).sum())
                continue
            gR, gZ = oracles.fd_grad(psi, R0, Z0, h=1e-4 * L)
            gp = float(np.hypot(gR, gZ))
            tol = 1e3 * (atol + rtol * np.hypot(R0, Z0)) + 10 * ratol / gp
            for idx in (range(i0 + 1, len(cs)), range(i0 - 1, -1, -1)):
                idx = list(idx)
                # the integral curve is followed as far as it stays inside the psi data box
                # (no gradient of the interpolated psi outside: gridutil.psi_box)
                for q, ii in enumerate(idx):
                    if not inb[ii]:
                        nout += len(idx) - q
                        idx = idx[:q]
                        break
                if not idx:
                    continue
                try:
                    pts = oracles.gradcurve(psi, R0, Z0, pv[idx])
                except Exception:
                    nfail_oracle += 1
                    continue
                e = np.hypot(pts[:, 0] - P[idx, j, 0], pts[:, 1] - P[idx, j, 1]) / tol
                npts += e.size
                if amax(e) > worst:
                    worst = amax(e)
                    where = {"region": region.name, "poloidal_index": j, "contour": int(idx[int(np.argmax(e))]), "dist_m": float(amax(e) * tol), "tol_m": float(tol)}
    out.append(rec("points of one poloidal index lie on one grad(psi) integral curve", cls, npts, worst, 1.0, where=where, note="distance in units of 1e3*(atol+rtol*|x|)+10*refine_atol/|grad psi|"))
    if nout:
        out.append(rec("informational: contour points outside the psi data box left out", cls + "|outside-box", nout, 0, 0))
    if nfail_oracle:
        out.append(rec("oracle integral curve converged", cls, nfail_oracle, nfail_oracle, 0, sig="gradcurve failed"))
    out.append(rec("region kinds reached", cls + "|" + "+".join(sorted(kinds)), len(kinds), 0, 0))
    # the radial line continues across the separatrix: the last contour of a region and the first
    # contour of its outer neighbour are the same skeleton points (in-domain rows)
    myg = int(o.y_boundary_guards)
    wc = 0.0
    nc_ = 0
    for rid, region in mesh.regions.items():
        oid = region.connections["outer"]
        if oid is None:
            continue
        og = mesh.regions[oid]
        PA = np.array([[p.R, p.Z] for p in region.contours[-1]])
        PB = np.array([[p.R, p.Z] for p in og.contours[0]])
        d = np.hypot(PA[:, 0] - PB[:, 0], PA[:, 1] - PB[:, 1])
        dom = np.ones(len(d), bool)
        if region.connections["lower"] is None:
            dom[: 2 * myg] = False
        if region.connections["upper"] is None:
            dom[len(d) - 2 * myg :] = False
        if dom.any():
            wc = max(wc, amax(d[dom]))
            nc_ += int(dom.sum())
    if nc_:
        out.append(rec("radial grid lines continue across region boundaries (same skeleton point on both sides)", cls, nc_, wc, 1e-6, note="in-domain rows; both regions follow grad(psi) from the same separatrix point"))
    # ---- file-level: radial grid direction parallel to grad psi (second order) ----------
    wang = 0.0
    nang = 0
    for region in mesh.regions.values():
        eR = region.Rxy.xlow[1:] - region.Rxy.xlow[:-1]
        eZ = region.Zxy.xlow[1:] - region.Zxy.xlow[:-1]
        gR, gZ = oracles.fd_grad(psi, region.Rxy.centre, region.Zxy.centre, h=1e-4 * L)
        sin = np.abs(eR * gZ - eZ * gR) / (np.hypot(eR, eZ) * np.hypot(gR, gZ))
        sin = np.where(xpoint_cells(region) | ~cellbox(eq, region, margin=2e-4 * L), 0.0, sin)
        # also skip the whole first/last poloidal column next to an X-point join (strong shear)
        nang += sin.size
        wang = max(wang, amax(sin))
    out.append(rec("radial grid direction parallel to grad(psi) (cells not touching an X-point)", cls, nang, wang, 0.3, note="|sin| of the angle; second order in the radial spacing, quick grids have 3 radial cells per region"))
    z = max(amax(np.abs(nc[k])) for k in ("g12", "g13", "g_12", "g_13", "g12_xlow", "g12_ylow", "g13_xlow", "g13_ylow"))
    out.append(rec("file: g12=g13=g_12=g_13=0", cls, nc["g12"].size * 8, z, 0.0))
    return out
