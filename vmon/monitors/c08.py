"""C08  Block topology, branch-cut indices and the global index map."""

import numpy as np

from ..boutindex import Topo
from ..gridutil import amax, case_class
from ..rec import rec

PROPERTY = "C08"


def applies(spec):
    return spec.get("kind", "tok") in ("tok", "circ", "torpex")


def run(cap):
    out = []
    cls = case_class(cap.spec)
    mesh, nc = cap.mesh, cap.nc
    o = cap.spec.get("opts", {})
    if cap.spec.get("kind", "tok") == "tok":
        legs = [int(o.get(k, o.get("ny_inner_divertor" if "inner" in k else "ny_outer_divertor", 4))) for k in ("ny_inner_lower_divertor", "ny_outer_lower_divertor")]
        core = int(o.get("ny_sol", 8))
        if max(legs) >= 2 * core:
            cls += "|longleg"
        four = [o.get(k) for k in ("ny_inner_lower_divertor", "ny_outer_lower_divertor", "ny_inner_upper_divertor", "ny_outer_upper_divertor")]
        if all(v is not None for v in four) and len(set(four)) == 4:
            cls += "|4 different legs"
    nx, nyf = nc["Rxy"].shape

    # ---- (i) structure in memory ----------------------------------------------------
    cover = np.zeros((nx, nyf), int)
    for rid, region in mesh.regions.items():
        sl = mesh.region_indices[rid]
        cover[sl] += 1
        blk = cover[sl]
        if blk.shape != (region.nx, region.ny):
            out.append(rec("mem.region_slice_shape", cls, 1, 1, 0, sig="%s %s vs (%d,%d)" % (region.name, blk.shape, region.nx, region.ny)))
    out.append(rec("mem.regions_tile_rectangle_once", cls, cover.size, int((cover != 1).sum()), 0))
    nasym = 0
    nsize = 0
    nconn = 0
    opp = {"upper": "lower", "lower": "upper", "inner": "outer", "outer": "inner"}
    for rid, region in mesh.regions.items():
        for face, other in region.connections.items():
            if other is None:
                continue
            nconn += 1
            o_ = mesh.regions[other]
            if o_.connections[opp[face]] != rid:
                nasym += 1
            if face in ("upper", "lower") and o_.nx != region.nx:
                nsize += 1
            if face in ("inner", "outer") and o_.ny != region.ny:
                nsize += 1
    out.append(rec("mem.connections_symmetric", cls, nconn, nasym, 0))
    out.append(rec("mem.joined_edges_equal_size", cls, nconn, nsize, 0))
    # every region is in exactly one x-group and one y-group
    cnt = {}
    for g in mesh.y_groups:
        for r in g:
            cnt[r.myID] = cnt.get(r.myID, 0) + 1
    out.append(rec("mem.y_groups_partition", cls, len(mesh.regions), sum(1 for rid in mesh.regions if cnt.get(rid, 0) != 1), 0))
    cnt = {}
    for g in mesh.x_groups:
        for r in g:
            cnt[r.myID] = cnt.get(r.myID, 0) + 1
    out.append(rec("mem.x_groups_partition", cls, len(mesh.regions), sum(1 for rid in mesh.regions if cnt.get(rid, 0) != 1), 0))
    # y-groups follow the 'upper' connections in order
    bad = 0
    for g in mesh.y_groups:
        for k, r in enumerate(g):
            if r.yGroupIndex != k:
                bad += 1
            nxt = r.connections["upper"]
            if k + 1 < len(g):
                if nxt != g[k + 1].myID:
                    bad += 1
            elif nxt is not None and nxt != g[0].myID:
                bad += 1
    out.append(rec("mem.y_groups_follow_connections", cls, len(mesh.regions), bad, 0))
    # shared x-edge: the outer contour of the inner region is the inner contour of the outer one
    myg = int(mesh.user_options.y_boundary_guards)
    wx = {"domain": 0.0, "guards": 0.0}
    nshare = {"domain": 0, "guards": 0}
    for rid, region in mesh.regions.items():
        oid = region.connections["outer"]
        if oid is None:
            continue
        og = mesh.regions[oid]
        PA = np.array([[p.R, p.Z] for p in region.contours[-1]])
        PB = np.array([[p.R, p.Z] for p in og.contours[0]])
        d = np.hypot(PA[:, 0] - PB[:, 0], PA[:, 1] - PB[:, 1])
        dom = np.ones(len(d), bool)
        if region.connections["lower"] is None:
            dom[: 2 * myg] = False
        if region.connections["upper"] is None:
            dom[len(d) - 2 * myg :] = False
        for k, m in (("domain", dom), ("guards", ~dom)):
            if m.any():
                wx[k] = max(wx[k], amax(d[m]))
                nshare[k] += int(m.sum())
    for k in ("domain", "guards"):
        if nshare[k]:
            out.append(rec("mem.shared_x_edge_points_coincide." + k, cls, nshare[k], wx[k], 1e-6, note="two independent refinements of the same point, each to refine_atol/|grad psi| and the follow_perpendicular tolerance (observed <=1e-7); defects give >=1e-4", sig=("radially adjacent regions place the points of their shared contour differently (%s rows)" % k) if wx[k] > 1e-6 else None))
    # shared y-edge before the copy: a region's own last point vs the upper neighbour's first
    # (contours that end in a pinned X-point corner are displaced from the X-point on purpose
    # and replaced by the X-point position in the output: reported separately)
    from ..gridutil import pinned_mask

    wy = {"ordinary": 0.0, "through an X-point": 0.0}
    ny_ = {"ordinary": 0, "through an X-point": 0}
    for rid, region in mesh.regions.items():
        uid = region.connections["upper"]
        if uid is None:
            continue
        ur = mesh.regions[uid]
        pm = pinned_mask(region)
        for ic in range(len(region.contours)):
            a, b = region.contours[ic][2 * region.ny], ur.contours[ic][0]
            k = "through an X-point" if (ic % 2 == 0 and pm[ic // 2, -1]) else "ordinary"
            wy[k] = max(wy[k], float(np.hypot(a.R - b.R, a.Z - b.Z)))
            ny_[k] += 1
    if ny_["ordinary"]:
        out.append(rec("mem.shared_y_edge_points_coincide (own end point vs upper neighbour's first point)", cls, ny_["ordinary"], wy["ordinary"], 1e-7, sig="own end point and the upper neighbour's first point differ" if wy["ordinary"] > 1e-7 else None, note="max %.2e m; separatrix contours through an X-point (pinned in the output): %.2e m" % (wy["ordinary"], wy["through an X-point"])))
    # ---- (ii) BOUT++ reading of the integers vs the geometry in the file -------------
    t = Topo(nc)
    probs = t.ordering_problems()
    out.append(rec("file.topology_integers_ordered", cls, 7, len(probs), 0, sig="; ".join(probs)[:300], where={k: int(nc[k]) for k in ("nx", "ny", "y_boundary_guards", "ixseps1", "ixseps2", "jyseps1_1", "jyseps2_1", "ny_inner", "jyseps1_2", "jyseps2_2")}))
    # the number of X-points the topology has = the number of X-points of the equilibrium that lie
    # inside the wall and strictly inside the gridded psi range (oracle: analytic critical points of
    # the family, the psi range of the x-faces in the file, exact point-in-polygon test)
    if cap.fam is not None and cap.spec.get("kind", "tok") == "tok":
        from .. import exactgeom as xg
        from .c03 import transform

        pf_, _ = transform(cap.spec)
        px = np.concatenate([np.ravel(nc["psixy_xlow"]), np.ravel(nc["psixy_xlow"][-1:] + nc["dx"][-1:])])
        lo, hi = float(px.min()), float(px.max())
        span = hi - lo
        wallp = [xg.P(p) for p in np.column_stack([nc["closed_wall_R"], nc["closed_wall_Z"]])[:-1]]
        n_in = 0
        ambiguous = False
        for xr, xz, xpsi in cap.fam.critical_points()[1]:
            ps_ = pf_ * xpsi
            if xg.winding_inside(xg.P((xr, xz)), wallp) != "inside":
                continue
            if min(abs(ps_ - lo), abs(ps_ - hi)) < 2e-3 * span:
                ambiguous = True
            if lo < ps_ < hi:
                n_in += 1
        n_file = 0 if int(nc["jyseps1_1"]) < 0 and int(nc["jyseps2_2"]) >= int(nc["ny"]) - 1 and int(nc["ixseps1"]) >= int(nc["nx"]) else (2 if int(nc["jyseps2_1"]) != int(nc["jyseps1_2"]) else 1)
        if not ambiguous:
            out.append(rec("file.number of X-points in the topology = X-points inside the wall and the gridded psi range", cls, 1, abs(n_file - min(n_in, 2)), 0, sig="topology has %d, the gridded range contains %d" % (n_file, n_in), where={"psi_range": [lo, hi]}))
    up = t.up_map()
    LL = (nc["Rxy_corners"], nc["Zxy_corners"])
    LR = (nc["Rxy_lower_right_corners"], nc["Zxy_lower_right_corners"])
    UL = (nc["Rxy_upper_left_corners"], nc["Zxy_upper_left_corners"])
    UR = (nc["Rxy_upper_right_corners"], nc["Zxy_upper_right_corners"])
    worst = 0.0
    npairs = 0
    badpairs = []
    for (x, f), g in up.items():
        if g is None:
            continue
        npairs += 1
        d = max(
            np.hypot(UL[0][x, f] - LL[0][x, g], UL[1][x, f] - LL[1][x, g]),
            np.hypot(UR[0][x, f] - LR[0][x, g], UR[1][x, f] - LR[1][x, g]),
        )
        if not (d <= 1e-12):
            badpairs.append((x, f, g, float(d)))
        worst = max(worst, d) if d == d else float("nan")
    out.append(rec("file.bout_y_neighbours_share_corners", cls, npairs, worst, 1e-12, where=badpairs[:6], sig=("mismatch at %d of %d pairs" % (len(badpairs), npairs)) if badpairs else None))
    # expected number of targets (rows without an upper neighbour), per x: 1 or 2
    ntargets = sum(1 for v in up.values() if v is None) // max(1, nx)
    out.append(rec("file.target_rows", cls, 1, 0, 0, where={"rows_without_upper_neighbour_per_x": ntargets}))
    # x neighbours: always (x+1, same row); rows inside the domain and rows in the
    # boundary guard cells beyond a target are reported separately
    dx1 = np.hypot(LR[0][:-1] - LL[0][1:], LR[1][:-1] - LL[1][1:])
    dx2 = np.hypot(UR[0][:-1] - UL[0][1:], UR[1][:-1] - UL[1][1:])
    dom = np.zeros(nyf, bool)
    dom[[t.fidx(j) for j in range(t.ny)]] = True
    if dx1.size:
        out.append(rec("file.bout_x_neighbours_share_corners.domain", cls, int(dom.sum()) * (nx - 1) * 2, max(amax(dx1[:, dom]), amax(dx2[:, dom])), 1e-6))
        if (~dom).any():
            g = ~dom
            w = max(amax(dx1[:, g]), amax(dx2[:, g]))
            rows = sorted(set(np.argwhere((dx1 > 1e-6) | (dx2 > 1e-6))[:, 1].tolist()))
            out.append(rec("file.bout_x_neighbours_share_corners.guards", cls, int(g.sum()) * (nx - 1) * 2, w, 1e-6, sig=("rows %s" % rows) if w > 1e-6 else None))
    # the y-faces written in the file are the shared ones: ylow of the upper neighbour
    # lies between its lower corners (same flux surface row ordering)
    # ---- (iv) poloidal coordinates -----------------------------------------------------
    dy = nc["dy"]
    out.append(rec("file.dy_constant", cls, dy.size, amax(np.abs(dy - dy.flat[0])), 4 * float(np.spacing(abs(dy.flat[0])))))
    dyv = float(dy.flat[0])
    ycore = t.core_rows()
    exp_dy = 2 * np.pi / len(ycore) if ycore else 2 * np.pi / t.ny
    out.append(rec("file.dy=2pi/ny_core", cls, 1, abs(dyv - exp_dy) / exp_dy, 1e-14))
    yc = nc["y-coord"]
    jj = np.arange(nyf)[None, :] * dyv
    out.append(rec("file.y-coord=j*dy", cls, yc.size * 3, max(amax(np.abs(yc - jj)), amax(np.abs(nc["y-coord_xlow"] - jj)), amax(np.abs(nc["y-coord_ylow"] - (jj - 0.5 * dyv)))), 1e-12 * max(1.0, nyf * dyv)))
    th = nc["theta"]
    thy = nc["theta_ylow"]
    if ycore:
        # theta: 0 at the face before the first core cell, increases by dy per cell in
        # core order (continuous from the inner to the outer core), 2pi after the last
        exp = (np.arange(len(ycore)) + 0.5) * dyv
        got = th[0, ycore]
        goty = thy[0, ycore]
        out.append(rec("file.theta_core_0_to_2pi", cls, 2 * len(ycore), max(amax(np.abs(got - exp)), amax(np.abs(goty - (exp - 0.5 * dyv)))), 1e-12 * 2 * np.pi))
        out.append(rec("file.theta_same_for_all_x", cls, th.size, amax(np.abs(th - th[0:1, :])), 1e-13 * 2 * np.pi))
        # legs: documented continuity -- each leg row differs from its y-neighbour by dy
        worst_t = 0.0
        nleg = 0
        for (x, f), g in up.items():
            if x != nx - 1 or g is None:
                continue  # outermost SOL row: legs and SOL are one open chain
            d = th[x, g] - th[x, f]
            # jumps of a multiple of 2pi are allowed where the chain passes the core
            r = abs(((d - dyv) + np.pi) % (2 * np.pi) - np.pi)
            nleg += 1
            worst_t = max(worst_t, r)
        out.append(rec("file.theta_increments_by_dy_along_sol", cls, nleg, worst_t, 1e-11))
    # chi = 2 pi zShift / ShiftAngle in the core, NaN elsewhere
    cxn = t.core_x()
    core2d = np.zeros((nx, nyf), bool)
    if ycore and cxn > 0:
        core2d[:cxn, ycore] = True
    for suf in ("", "_xlow", "_ylow"):
        chi = nc["chi" + suf]
        core_nan = int(np.isnan(chi[core2d]).sum())
        open_fin = int(np.isfinite(chi[~core2d]).sum())
        out.append(rec("file.chi_nan_exactly_on_open_field_lines" + suf, cls, chi.size, core_nan + open_fin, 0, sig="core_nan=%d open_finite=%d guards=%d" % (core_nan, open_fin, t.myg) if core_nan + open_fin else None))
    if ycore and cxn > 0:
        sa = nc["ShiftAngle"][:cxn, None]
        for suf in ("", "_ylow"):
            chi = nc["chi" + suf][:cxn][:, ycore]
            zs = nc["zShift" + suf][:cxn][:, ycore]
            exp = 2 * np.pi * zs / sa
            m = np.isfinite(exp) & np.isfinite(chi)
            out.append(rec("file.chi=2pi*zShift/ShiftAngle" + suf, cls, int(m.sum()), amax(np.abs(chi[m] - exp[m])), 1e-12 * 2 * np.pi))
    return out
