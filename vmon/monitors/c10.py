"""C10 (grid part)  Poloidal order of grid points, end points, X-point join spacing."""

import numpy as np

from ..gridutil import amax, case_class
from ..rec import rec

PROPERTY = "C10"


def applies(spec):
    return spec.get("kind", "tok") in ("tok", "circ", "torpex")


def run(cap):
    out = []
    cls = case_class(cap.spec)
    eq, mesh = cap.eq, cap.mesh
    orth = bool(mesh.user_options.orthogonal)
    # grid points in strictly increasing poloidal order along every contour
    nbad = 0
    n = 0
    for region in mesh.regions.values():
        for c in region.contours:
            d = np.array(c.get_distance(psi=eq.psi))
            n += len(d)
            nbad += int((np.diff(d) <= 0).sum())
    out.append(rec("grid points in strictly increasing poloidal order on every contour", cls, n, nbad, 0))
    return out
