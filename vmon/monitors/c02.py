"""C02  Metric tensor and Jacobian: inverse pair, Jacobian identities, closed forms with
the non-orthogonality angle measured by the oracle, sign-convention-free displacement
products, and g_23 = g_33 d(zShift)/dy by Simpson's rule over each cell."""

import numpy as np

from .. import oracles
from ..gridutil import amax, argmax_where, case_class, cellbox, inbox, pinned_mask
from ..rec import rec

PROPERTY = "C02"
UP = ("g11", "g22", "g33", "g12", "g13", "g23")
DN = ("g_11", "g_22", "g_33", "g_12", "g_13", "g_23")


def applies(spec):
    return spec.get("kind", "tok") in ("tok", "circ", "torpex")


def _mat(get, names):
    a11, a22, a33, a12, a13, a23 = (get(n) for n in names)
    return np.array([[a11, a12, a13], [a12, a22, a23], [a13, a23, a33]])


def xpoint_cells(region):
    """mask (nx, ny) of cells that touch a pinned corner"""
    pm = pinned_mask(region)
    m = np.zeros((region.nx, region.ny), bool)
    for i, j in np.argwhere(pm):
        for ci in (i - 1, i):
            for cj in (j - 1, j):
                if 0 <= ci < region.nx and 0 <= cj < region.ny:
                    m[ci, cj] = True
    return m


def run(cap):
    out = []
    cls = case_class(cap.spec)
    eq, mesh, nc = cap.eq, cap.mesh, cap.nc
    psi = eq.psi
    L = oracles.length_scale(eq)
    orth = bool(mesh.user_options.orthogonal)
    W = {}

    nout = [0]

    def upd(key, arr, region=None, loc=None, thr=None, mask=None):
        w = W.setdefault(key, {"worst": 0.0, "n": 0, "where": None})
        a = np.asarray(arr, float)
        if mask is not None and mask.shape == a.shape:
            # points outside the psi data box: no derivative of the interpolated psi there
            a = np.where(mask, a, 0.0)
            w["n"] += int(mask.sum()) - a.size
        w["n"] += a.size
        m = amax(a)
        if m != m or m > w["worst"]:
            w["worst"] = m
            w["where"] = {"region": getattr(region, "name", None), "loc": loc, "index": argmax_where(a)}

    zero_arrays = {}
    for rid, region in mesh.regions.items():
        xc = xpoint_cells(region)
        for loc in ("centre", "xlow", "ylow"):

            def g(n, loc=loc, region=region):
                return getattr(getattr(region, n), loc)

            R = g("Rxy")
            Z = g("Zxy")
            G = _mat(g, UP)
            C = _mat(g, DN)
            # F6 signature: arrays that are identically zero where they cannot be
            for n in ("g22", "g33", "g_11"):
                if np.all(g(n) == 0.0):
                    zero_arrays.setdefault(loc, set()).add(n)
            if any(np.all(g(n) == 0.0) for n in ("g22", "g33", "g_11")):
                continue
            P = np.einsum("ij...,jk...->ik...", G, C)
            I3 = np.eye(3)[:, :, None, None]
            # rounding of the product is proportional to sum_k |G_ik||C_kj|, which is >> 1 where the
            # coefficients differ by many orders of magnitude (TORPEX: Bp ~ 1e-3 T)
            S = np.einsum("ij...,jk...->ik...", np.abs(G), np.abs(C))
            upd("inverse_pair." + loc, (np.abs(P - I3) / np.maximum(1.0, S)).max(axis=(0, 1)), region, loc)
            J = g("J")
            hy = g("hy")
            Bp = g("Bpxy")
            upd("J=hy/Bpxy." + loc, np.abs(J * Bp / hy - 1.0), region, loc)
            det = (
                G[0, 0] * G[1, 1] * G[2, 2]
                + 2 * G[0, 1] * G[0, 2] * G[1, 2]
                - G[0, 0] * G[1, 2] ** 2
                - G[1, 1] * G[0, 2] ** 2
                - G[2, 2] * G[0, 1] ** 2
            )
            upd("|J|=det(g^ij)^-1/2." + loc, np.abs(np.abs(J) * np.sqrt(det) - 1.0), region, loc)
            # ---- closed forms ----------------------------------------------------
            gR, gZ = oracles.fd_grad(psi, R, Z, h=1e-4 * L)
            M = inbox(eq, R, Z, margin=2e-4 * L)
            nout[0] += int((~M).sum())
            gp = np.hypot(gR, gZ)
            RBp2 = gp**2  # (R*Bp)^2 = |grad psi|^2
            upd("g11=(R*Bp)^2." + loc, np.abs(G[0, 0] / RBp2 - 1.0), region, loc, mask=M)
            upd("g_33=R^2." + loc, np.abs(C[2, 2] / R**2 - 1.0), region, loc)
            Bt = g("Btxy")
            nu = hy * Bt / (Bp * R)  # with the sign of Bpxy, as documented for dphidy
            upd("dphidy=hy*Bt/(Bp*R)." + loc, np.abs(g("dphidy") - nu) / (np.abs(nu) + 1e-300) if np.any(nu != 0) else np.abs(g("dphidy")), region, loc)
            if orth:
                cosb = np.ones_like(R)
            else:
                if loc == "centre":
                    eR = region.Rxy.xlow[1:] - region.Rxy.xlow[:-1]
                    eZ = region.Zxy.xlow[1:] - region.Zxy.xlow[:-1]
                elif loc == "ylow":
                    eR = region.Rxy.corners[1:] - region.Rxy.corners[:-1]
                    eZ = region.Zxy.corners[1:] - region.Zxy.corners[:-1]
                else:
                    eR = eZ = None
                if eR is not None:
                    en = np.hypot(eR, eZ)
                    cosb = np.abs(eR * gR + eZ * gZ) / (en * gp)
                    cosb = np.where(M, cosb, 1.0)
                else:
                    cosb = None
            if cosb is not None:
                tanb = np.sqrt(np.maximum(0.0, 1 - cosb**2)) / cosb
                upd("g22=1/(hy*cos(beta))^2." + loc, np.abs(G[1, 1] * (hy * cosb) ** 2 - 1.0), region, loc, mask=M)
                upd("g_11=1/(R*Bp*cos(beta))^2." + loc, np.abs(C[0, 0] * RBp2 * cosb**2 - 1.0), region, loc, mask=M)
                upd("g_22=hy^2+(R*nu)^2." + loc, np.abs(C[1, 1] / (hy**2 + (R * nu) ** 2) - 1.0), region, loc)
                upd("g33=1/R^2+(nu/(hy*cos(beta)))^2." + loc, np.abs(G[2, 2] / (1 / R**2 + (nu / (hy * cosb)) ** 2) - 1.0), region, loc, mask=M)
                sc12 = np.sqrt(RBp2) / hy
                upd("|g12|=R|Bp||tan(beta)|/hy." + loc, np.abs(np.abs(G[0, 1]) - sc12 * tanb) / sc12, region, loc, mask=M)
                upd("|g_12|=hy|tan(beta)|/(R|Bp|)." + loc, np.abs(np.abs(C[0, 1]) - hy * tanb / np.sqrt(RBp2)) * np.sqrt(RBp2) / hy, region, loc, mask=M)
                upd("|g23|=|nu|/(hy*cos(beta))^2." + loc, np.abs(np.abs(G[1, 2]) - np.abs(nu) / (hy * cosb) ** 2) * hy**2 / (np.abs(nu) + 1e-300) if np.any(nu != 0) else np.abs(G[1, 2]), region, loc, mask=M)
                upd("|g_23|=|nu|R^2." + loc, np.abs(np.abs(C[1, 2]) - np.abs(nu) * R**2) / (np.abs(nu) * R**2 + 1e-300) if np.any(nu != 0) else np.abs(C[1, 2]), region, loc)
            if orth:
                z = max(amax(np.abs(G[0, 1])), amax(np.abs(G[0, 2])), amax(np.abs(C[0, 1])), amax(np.abs(C[0, 2])))
                upd("orthogonal:g12=g13=g_12=g_13=0." + loc, np.array([z]), region, loc)
            else:
                upd("I=0:g_13=0." + loc, np.abs(C[0, 2]), region, loc)
        # ---- (d) displacement products at cell centres --------------------------------
        dx = region.dx.centre
        dy = region.dy.centre
        exR = (region.Rxy.xlow[1:] - region.Rxy.xlow[:-1]) / dx
        exZ = (region.Zxy.xlow[1:] - region.Zxy.xlow[:-1]) / dx
        eyR = (region.Rxy.ylow[:, 1:] - region.Rxy.ylow[:, :-1]) / dy
        eyZ = (region.Zxy.ylow[:, 1:] - region.Zxy.ylow[:, :-1]) / dy
        ok = ~xc & cellbox(eq, region, margin=2e-4 * L)
        g_11 = region.g_11.centre
        if not np.all(g_11 == 0):
            upd("disp:g_11~|e_x|^2", np.where(ok, np.abs((exR**2 + exZ**2) / g_11 - 1.0), 0.0), region, "centre")
            upd("disp:hy~|e_y|", np.where(ok, np.abs(np.hypot(eyR, eyZ) / region.hy.centre - 1.0), 0.0), region, "centre")
            g12m = exR * eyR + exZ * eyZ
            D = exR * eyZ - exZ * eyR
            gxR, gxZ = eyZ / D, -eyR / D
            gyR, gyZ = -exZ / D, exR / D
            g12up = gxR * gyR + gxZ * gyZ
            if orth:
                sc = np.sqrt(g_11) * region.hy.centre
                upd("disp:e_x.e_y~0 (orthogonal)", np.where(ok, np.abs(g12m) / sc, 0.0), region, "centre")
            else:
                gR, gZ = oracles.fd_grad(psi, region.Rxy.centre, region.Zxy.centre, h=1e-4 * L)
                en = np.hypot(exR, exZ)
                cosb = np.abs(exR * gR + exZ * gZ) / (en * np.hypot(gR, gZ))
                tanb = np.sqrt(np.maximum(0, 1 - cosb**2)) / cosb
                sel = ok & (tanb >= 0.3)
                if sel.any():
                    r1 = g12m[sel] / region.g_12.centre[sel]
                    r2 = g12up[sel] / region.g12.centre[sel]
                    upd("disp:sign+size g_12~e_x.e_y (|tan beta|>=0.3)", np.maximum(0.0, -r1), region, "centre")
                    upd("disp:sign+size g12~grad(x).grad(y) (|tan beta|>=0.3)", np.maximum(0.0, -r2), region, "centre")
        # ---- (d'') hy at the y-faces = distance between the neighbouring cell centres per dy, the first
        # face of a region with a lower neighbour included (centre of the neighbour's last cell)
        if not np.all(region.hy.ylow == 0):
            Rc, Zc = region.Rxy.centre, region.Zxy.centre
            Rf, Zf = region.Rxy.ylow, region.Zxy.ylow
            # two chords through the face point (half the turning angle per chord: the chord/arc error
            # is a quarter of that of the straight line between the centres)
            cc = (np.hypot(Rf[:, 1:-1] - Rc[:, :-1], Zf[:, 1:-1] - Zc[:, :-1]) + np.hypot(Rc[:, 1:] - Rf[:, 1:-1], Zc[:, 1:] - Zf[:, 1:-1])) / dy[:, 1:]
            okf = ok[:, 1:] & ok[:, :-1]
            upd("disp:hy_ylow~|centre to centre| (interior faces)", np.where(okf, np.abs(cc / region.hy.ylow[:, 1:-1] - 1.0), 0.0), region, "ylow")
            lid = region.connections["lower"]
            if lid is not None:
                lr = mesh.regions[lid]
                c0 = (np.hypot(Rf[:, 0] - lr.Rxy.centre[:, -1], Zf[:, 0] - lr.Zxy.centre[:, -1]) + np.hypot(Rc[:, 0] - Rf[:, 0], Zc[:, 0] - Zf[:, 0])) / dy[:, 0]
                okj = ok[:, 0] & ~xpoint_cells(lr)[:, -1]
                upd("disp:hy_ylow~|centre to centre| (first face after a join)", np.where(okj, np.abs(c0 / region.hy.ylow[:, 0] - 1.0), 0.0), region, "ylow")
        # ---- (d') the same at the interior y-faces: e_x from the corner points, e_y from centres ----
        if not orth and region.ny >= 2 and not np.all(region.g_11.ylow == 0):
            dxy = region.dx.ylow[:, 1:-1]
            fxR = (region.Rxy.corners[1:, 1:-1] - region.Rxy.corners[:-1, 1:-1]) / dxy
            fxZ = (region.Zxy.corners[1:, 1:-1] - region.Zxy.corners[:-1, 1:-1]) / dxy
            fyR = (region.Rxy.centre[:, 1:] - region.Rxy.centre[:, :-1]) / dy[:, 1:]
            fyZ = (region.Zxy.centre[:, 1:] - region.Zxy.centre[:, :-1]) / dy[:, 1:]
            Ry, Zy = region.Rxy.ylow[:, 1:-1], region.Zxy.ylow[:, 1:-1]
            gR, gZ = oracles.fd_grad(psi, Ry, Zy, h=1e-4 * L)
            en = np.hypot(fxR, fxZ)
            cosb = np.abs(fxR * gR + fxZ * gZ) / (en * np.hypot(gR, gZ))
            tanb = np.sqrt(np.maximum(0, 1 - cosb**2)) / cosb
            oky = ~(xc[:, 1:] | xc[:, :-1]) & ok[:, 1:] & ok[:, :-1]
            sel = oky & (tanb >= 0.3)
            if sel.any():
                g12m = fxR * fyR + fxZ * fyZ
                D = fxR * fyZ - fxZ * fyR
                g12up = (fyZ / D) * (-fxZ / D) + (-fyR / D) * (fxR / D)
                upd("disp:sign+size g_12~e_x.e_y at ylow (|tan beta|>=0.3)", np.maximum(0.0, -(g12m[sel] / region.g_12.ylow[:, 1:-1][sel])), region, "ylow")
                upd("disp:sign+size g12~grad(x).grad(y) at ylow (|tan beta|>=0.3)", np.maximum(0.0, -(g12up[sel] / region.g12.ylow[:, 1:-1][sel])), region, "ylow")
        # ---- (e) Simpson: integral of g_23/g_33 over the cell = zShift difference ------
        if not np.all(region.g_33.ylow == 0):
            nuy = region.g_23.ylow / region.g_33.ylow
            nuc = region.g_23.centre / region.g_33.centre
            simp = (nuy[:, :-1] + 4 * nuc + nuy[:, 1:]) / 6.0 * dy
            dz = region.zShift.ylow[:, 1:] - region.zShift.ylow[:, :-1]
            if np.any(dz != 0):
                upd("simpson:sign(g_23/g_33)=sign(dzShift/dy)", (np.sign(simp) != np.sign(dz)).astype(float), region, "centre")
                # Simpson's rule needs a smoothly varying cell size: compare the magnitude only where
                # hy at the two faces and the centre differ by less than a factor 1.5
                h3 = np.stack([region.hy.ylow[:, :-1], region.hy.centre, region.hy.ylow[:, 1:]])
                smooth = ok & (h3.max(axis=0) / h3.min(axis=0) < 1.5)
                upd("simpson:size g_23/g_33~dzShift/dy", np.where(smooth, np.abs(np.abs(simp / dz) - 1.0), 0.0), region, "centre")
            else:
                upd("simpson:g_23=0 when zShift=0", np.abs(simp), region, "centre")

    THR = {
        "inverse_pair": 1e-9,
        "J=hy/Bpxy": 1e-12,
        "|J|=det": 1e-9,
        "g11=": 1e-7,
        "g_33=": 1e-13,
        "dphidy=": 1e-12,
        "g22=": 1e-7,
        "g_11=": 1e-7,
        "g_22=": 1e-12,
        "g33=": 1e-7,
        "|g12|": 1e-6,
        "|g_12|": 1e-6,
        "|g23|": 1e-7,
        "|g_23|": 1e-12,
        "orthogonal:": 0.0,
        "I=0": 0.0,
        "disp:g_11": 0.35,
        "disp:hy_ylow": 0.15,
        "disp:hy": 0.2,
        "disp:e_x.e_y~0": 0.4,
        # the residual is max(0, -measured/stored): it decides the SIGN (a wrong sign gives about 1); the
        # size is decided by the closed forms. The measured products come from coarse displacements and
        # are off by up to a factor 2 on 2-cell legs.
        "disp:sign+size": 0.3,
        "simpson:sign": 0.0,
        "simpson:size": 0.4,
        "simpson:g_23=0": 0.0,
    }
    for key, w in sorted(W.items()):
        thr = next(v for k, v in THR.items() if key.startswith(k))
        sig = None
        if key.startswith("simpson:sign") and w["worst"] > 0:
            sig = "g_23 has the opposite sign of d(zShift)/dy (%s branch)" % ("orthogonal" if orth else "non-orthogonal")
        if key.startswith("disp:sign+size") and w["worst"] > 0.3:
            sig = "ratio measured/stored ~ -1: stored %s has the wrong sign" % ("g_12" if "g_12" in key else "g12")
        out.append(rec(key, cls, w["n"], w["worst"], thr, where=w["where"], sig=sig))
    if nout[0]:
        out.append(rec("informational: grid points outside the psi data box left out of the derivative-based closed forms", cls + "|outside-box", nout[0], 0, 0))
    for loc, names in zero_arrays.items():
        out.append(rec("metric_arrays_not_identically_zero." + loc, cls, len(names), len(names), 0, sig="%s identically zero at %s (%s)" % (",".join(sorted(names)), loc, "orthogonal" if orth else "non-orthogonal")))
    if not zero_arrays:
        out.append(rec("metric_arrays_not_identically_zero", cls, 9, 0, 0))
    # file = regions (assembly), centre location of every metric array
    e = 0.0
    n = 0
    for name in UP + DN + ("J",):
        for rid, region in mesh.regions.items():
            a = nc[name][mesh.region_indices[rid]]
            b = getattr(region, name).centre
            e = max(e, amax(np.abs(a - b)))
            n += a.size
            a = nc[name + "_ylow"][mesh.region_indices[rid]]
            b = getattr(region, name).ylow[:, :-1]
            e = max(e, amax(np.abs(a - b)))
            a = nc[name + "_xlow"][mesh.region_indices[rid]]
            b = getattr(region, name).xlow[:-1, :]
            e = max(e, amax(np.abs(a - b)))
    out.append(rec("file=regions", cls, n, e, 0.0))
    return out
