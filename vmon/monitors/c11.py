"""C11  Targets sit on the wall; penalty_mask and wall output match the geometry."""

import numpy as np

from .. import exactgeom as xg
from .. import families
from ..gridutil import amax, case_class
from ..rec import rec

PROPERTY = "C11"


def applies(spec):
    return spec.get("kind", "tok") == "tok"


def kappa_estimate(pts):
    d = np.diff(pts, axis=0)
    s = np.hypot(d[:, 0], d[:, 1])
    ang = np.arctan2(d[:, 1], d[:, 0])
    turn = np.abs((np.diff(ang) + np.pi) % (2 * np.pi) - np.pi)
    if len(turn) == 0:
        return 0.0
    return float(np.max(turn / (0.5 * (s[1:] + s[:-1]))))


def run(cap):
    out = []
    cls = case_class(cap.spec)
    wk = cap.spec.get("wall", {}) or {}
    cls += "|wall:%s%s" % (wk.get("kind", "box"), "-cw" if wk.get("cw") else "")
    eq, mesh, nc, fam = cap.eq, cap.mesh, cap.nc, cap.fam
    orth = bool(mesh.user_options.orthogonal)
    myg = int(mesh.user_options.y_boundary_guards)
    Nfine = float(mesh.user_options.finecontour_Nfine)
    wall_in = families.make_wall(cap.spec.get("wall"), mirror=fam.mirror)
    cw = np.column_stack([nc["closed_wall_R"], nc["closed_wall_Z"]])
    # ---- wall output ------------------------------------------------------------------
    out.append(rec("closed_wall is closed (last point = first)", cls, 1, float(np.hypot(*(cw[0] - cw[-1]))), 0.0))
    area2 = xg.signed_area2([xg.P(p) for p in cw[:-1]])
    out.append(rec("closed_wall anticlockwise (exact signed area > 0)", cls, 1, 0.0 if area2 > 0 else 1.0, 0.0))
    if wall_in is not None:
        a_in = xg.signed_area2([xg.P(p) for p in wall_in])
        exp = list(wall_in) if a_in > 0 else list(wall_in)[::-1]
        exp = np.array(exp + [exp[0]])
        tol = 0.0 if cap.spec.get("via", "api") == "api" else 6e-10 * float(np.abs(exp).max())
        if exp.shape == cw.shape:
            out.append(rec("closed_wall = input wall (reversed only if clockwise)", cls, len(exp), amax(np.abs(exp - cw)), tol))
        else:
            out.append(rec("closed_wall = input wall (reversed only if clockwise)", cls, len(exp), 1.0, 0.0, sig="number of wall points %d != %d" % (len(cw), len(exp))))
    wall_pts = [xg.P(p) for p in cw[:-1]]

    def side(R, Z):
        return xg.winding_inside(xg.P((R, Z)), wall_pts)

    # ---- target points -------------------------------------------------------------------
    wt = 0.0
    nt = 0
    where = None
    wside = 0
    nside = 0
    nthinwall = 0
    for rid, region in mesh.regions.items():
        lower_t = region.connections["lower"] is None
        upper_t = region.connections["upper"] is None
        if not (lower_t or upper_t):
            continue
        ny = region.ny
        name = region.equilibriumRegion.name
        rows = []
        if orth:
            # only the separatrix contour: radial boundary carrying the X-point
            from ..gridutil import pinned_mask

            pm = pinned_mask(region)
            for row in (0, -1):
                if pm[row].any():
                    rows.append(("corners", row))
        else:
            rows = [("corners", i) for i in range(region.nx + 1)] + [("ylow", i) for i in range(region.nx)]
        for loc, row in rows:
            R = getattr(region.Rxy, loc)[row]
            Z = getattr(region.Zxy, loc)[row]
            ic = (2 * row if row >= 0 else 2 * region.nx) if loc == "corners" else 2 * row + 1
            c = region.contours[ic]
            pts = np.array([[p.R, p.Z] for p in c])
            seg = np.hypot(*np.diff(pts, axis=0).T)
            kap = kappa_estimate(pts)
            if orth:
                step = 0.01  # leg-tracing step of findLegs
                tol = 4 * (step**2 * kap / 4) + 4e-8
            else:
                ds_f = float(seg.sum()) / Nfine
                tol = 4 * (ds_f**2 * kap / 4) + 4e-8
            for is_lower, jt in ((True, myg), (False, ny - myg)):
                if (is_lower and not lower_t) or ((not is_lower) and not upper_t):
                    continue
                d = xg.dist_point_polyline((R[jt], Z[jt]), cw)
                nt += 1
                if d / tol > wt:
                    wt = d / tol
                    where = {"region": region.name, "loc": loc, "row": row, "face": jt, "dist_m": d, "tol_m": tol}
                # faces strictly between the targets are inside, faces beyond outside
                for j in range(len(R)):
                    if j == jt:
                        continue
                    beyond = (j < jt) if is_lower else (j > jt)
                    if lower_t and upper_t:
                        continue  # wall.wall regions: handled face by face below
                    s = side(R[j], Z[j])
                    nside += 1
                    if s == "boundary":
                        continue
                    if beyond and s == "inside":
                        # a guard face that is inside the wall again because the wall structure at the
                        # target is thinner than the guard cell: the straight line from the target to it
                        # leaves that structure (crosses the wall once more): geometry, not counted
                        cr = [c for c in xg.first_crossing_on_segment((R[jt], Z[jt]), (R[j], Z[j]), cw) if c[2] == "point" and c[0] > 1e-6]
                        if len(cr) >= 1:
                            nthinwall += 1
                            continue
                    if beyond != (s == "outside"):
                        wside += 1
    out.append(rec("target point on the wall polygon (%s)" % ("separatrix, orthogonal" if orth else "every flux surface, non-orthogonal"), cls, nt, wt, 1.0, where=where, note="distance in units of 4*(ds^2*kappa/4)+4e-8 m, ds = %s" % ("leg-tracing step 0.01 m" if orth else "FineContour spacing")))
    if nthinwall:
        out.append(rec("informational: guard faces that come out again behind a wall structure thinner than the guard cell", cls + "|thin-wall", nthinwall, 0, 0))
    if nside:
        out.append(rec("faces between the targets inside the wall, guard faces beyond it (%s)" % ("separatrix rows" if orth else "all rows"), cls, nside, wside, 0))

    # ---- penalty mask ------------------------------------------------------------------------
    wpm = 0.0
    npm = 0
    wh = None
    nhidden = 0
    p0 = None
    if all(np.isfinite(float(getattr(eq, k, np.nan))) for k in ("Rmin", "Rmax", "Zmin", "Zmax")):
        p0 = (0.5 * (float(eq.Rmin) + float(eq.Rmax)), 0.5 * (float(eq.Zmin) + float(eq.Zmax)))
    counts = {"0": 0, "1": 0, "frac": 0}
    for rid, region in mesh.regions.items():
        Ry, Zy = region.Rxy.ylow, region.Zxy.ylow
        sides = {}
        dist = {}
        for i in range(region.nx):
            for j in range(region.ny + 1):
                sides[(i, j)] = side(Ry[i, j], Zy[i, j])
                # faces inside the wall whose line of sight to the centre of the psi box crosses the
                # wall (an even number of times): only a wall that is not star-shaped has them
                if p0 is not None and sides[(i, j)] == "inside" and any(c[2] == "point" for c in xg.first_crossing_on_segment(p0, (Ry[i, j], Zy[i, j]), cw)):
                    nhidden += 1
        for i in range(region.nx):
            for j in range(region.ny):
                p1 = (Ry[i, j], Zy[i, j])
                p2 = (Ry[i, j + 1], Zy[i, j + 1])
                got = float(region.penalty_mask[i, j])
                length = float(np.hypot(p1[0] - p2[0], p1[1] - p2[1]))
                cands = []
                opts1 = [sides[(i, j)]]
                opts2 = [sides[(i, j + 1)]]
                # a face within 1e-5 m of the wall (e.g. a target point) may be classified either way
                for key, o_, p in (((i, j), opts1, p1), ((i, j + 1), opts2, p2)):
                    if key not in dist:
                        dist[key] = xg.dist_point_polyline(p, cw)
                    if dist[key] < 1e-5 or o_[0] == "boundary":
                        o_[:] = ["inside", "outside"]
                for s1 in opts1:
                    for s2 in opts2:
                        if s1 == "inside" and s2 == "inside":
                            cands.append(0.0)
                        elif s1 == "outside" and s2 == "outside":
                            cands.append(1.0)
                        else:
                            cr = [c for c in xg.first_crossing_on_segment(p1, p2, cw) if c[2] in ("point", "touch")]
                            if not cr:
                                # no crossing although classified on different sides: only possible for an ambiguous face
                                cands.append(0.0 if s1 == "outside" and dist[(i, j)] < 1e-5 else (0.0 if s2 == "outside" and dist[(i, j + 1)] < 1e-5 else float("nan")))
                                continue
                            for c in cr:
                                t = float(c[0])
                                cands.append(t if s1 == "outside" else 1.0 - t)
                amb = 2e-5 / max(length, 1e-300) if (len(opts1) > 1 or len(opts2) > 1) else 0.0
                e = min(abs(got - c) for c in cands if c == c) if any(c == c for c in cands) else float("nan")
                e = max(0.0, e - amb)
                npm += 1
                counts["0" if got == 0 else ("1" if got == 1 else "frac")] += 1
                if e != e or e > wpm:
                    wpm = e
                    wh = {"region": region.name, "cell": [i, j], "got": got, "candidates": cands[:4]}
    out.append(rec("penalty_mask = {0, 1, outside fraction of the poloidal extent}", cls, npm, wpm, 1e-9, where=wh, note="values seen: %s" % counts))
    e = 0.0
    for rid, region in mesh.regions.items():
        e = max(e, amax(np.abs(nc["penalty_mask"][mesh.region_indices[rid]] - region.penalty_mask)))
    out.append(rec("penalty_mask file = regions", cls, nc["penalty_mask"].size, e, 0.0))
    if nhidden:
        out.append(rec("informational: y-faces inside the wall hidden from the centre of the psi box (wall not star-shaped)", cls + "|hidden-faces", nhidden, 0, 0))
    return out
