"""C03  Field and profile values at grid points agree with the equilibrium."""

import numpy as np

from .. import oracles
from ..gridutil import amax, argmax_where, case_class, cellbox, inbox
from ..rec import rec

PROPERTY = "C03"


def applies(spec):
    return spec.get("kind", "tok") in ("tok",)


def transform(spec):
    """(psi_factor, f_factor) applied by the documented options to the inputs."""
    o = spec.get("opts", {})
    pf = 1.0
    if o.get("reverse_current"):
        pf *= -1.0
    if o.get("psi_divide_twopi"):
        pf /= 2 * np.pi
    ff = -1.0 if o.get("reverse_Bt") else 1.0
    return pf, ff


def newton_crit(psi, R, Z, L):
    """Critical point of the interpolant near (R,Z) by Newton on fd derivatives."""
    for _ in range(30):
        gR, gZ = oracles.fd_grad(psi, R, Z, h=1e-4 * L)
        hRR, hRZ, hZZ = oracles.fd_hess(psi, R, Z, h=2e-3 * L)
        det = hRR * hZZ - hRZ**2
        dR = (hZZ * gR - hRZ * gZ) / det
        dZ = (-hRZ * gR + hRR * gZ) / det
        R, Z = R - dR, Z - dZ
        if np.hypot(dR, dZ) < 1e-12:
            break
    return float(R), float(Z)


def run(cap):
    out = []
    cls = case_class(cap.spec)
    eq, mesh, fam, nc = cap.eq, cap.mesh, cap.fam, cap.nc
    psi = eq.psi
    L = oracles.length_scale(eq)
    pf, ff = transform(cap.spec)
    opts = cap.spec.get("opts", {})
    # analytic normalised psi from the transformed analytic axis/boundary values
    pa, pb = pf * fam.psi_axis, pf * fam.psi_bdry

    def psin(p):
        return (p - pa) / (pb - pa)

    dct = cap.spec.get("opts", {}).get("psi_interpolation_method", "spline") == "dct"
    # profile tolerance: 65-point cubic spline of a smooth profile; looser where the profile has a
    # kink at the edge of the table (extrapolate_profiles) or psi_axis/psi_bdry come from a different
    # interpolant than eq.psi (dct: critical points are always searched on a spline)
    ptol = 5e-4 if opts.get("extrapolate_profiles") else (5e-5 if dct else 1e-5)
    Bscale = max(amax(np.abs(nc["Brxy"])), amax(np.abs(nc["Bzxy"])))
    signs = []
    nout = 0
    for suf in ("", "_xlow", "_ylow"):
        R, Z = nc["Rxy" + suf], nc["Zxy" + suf]
        gR, gZ = oracles.fd_grad(psi, R, Z, h=1e-4 * L)
        # outside the box of the psi data the interpolated psi has no derivative (see gridutil.psi_box)
        M = inbox(eq, R, Z, margin=2e-4 * L)
        nout += int((~M).sum())
        eBr = np.where(M, np.abs(nc["Brxy" + suf] - gZ / R), 0.0)
        eBz = np.where(M, np.abs(nc["Bzxy" + suf] + gR / R), 0.0)
        out.append(rec("Brxy=psi_Z/R" + suf, cls, int(M.sum()), amax(eBr) / Bscale, 1e-7, where=argmax_where(eBr)))
        out.append(rec("Bzxy=-psi_R/R" + suf, cls, int(M.sum()), amax(eBz) / Bscale, 1e-7))
        out.append(rec("|Bpxy|=hypot(Br,Bz)" + suf, cls, R.size, amax(np.abs(np.abs(nc["Bpxy" + suf]) - np.hypot(nc["Brxy" + suf], nc["Bzxy" + suf]))) / Bscale, 1e-13))
        out.append(rec("Bxy=hypot(Bp,Bt)" + suf, cls, R.size, amax(np.abs(nc["Bxy" + suf] - np.hypot(nc["Bpxy" + suf], nc["Btxy" + suf])) / nc["Bxy" + suf]), 1e-13))
        signs.append(np.sign(nc["Bpxy" + suf]).ravel())
        # toroidal field from the analytic profile of the family
        if fam.fs != 0:
            expF = ff * fam.F_of_psinorm(psin(psi(R, Z)))
            out.append(rec("Btxy=fpol(psi)/R" + suf, cls, R.size, amax(np.abs(nc["Btxy" + suf] - expF / R) / np.abs(expF / R)), ptol, where=argmax_where(np.abs(nc["Btxy" + suf] - expF / R))))
        else:
            out.append(rec("Btxy=0_without_fpol" + suf, cls, R.size, amax(np.abs(nc["Btxy" + suf])), 0.0))
    signs = np.concatenate(signs)
    nb = int(min((signs > 0).sum(), (signs < 0).sum()) + (signs == 0).sum())
    out.append(rec("Bpxy_one_sign_for_whole_grid", cls, signs.size, nb, 0))
    # sign of Bp along increasing y, from the positions of every cell (in memory)
    ndis = 0
    ncell = 0
    gsign = np.sign(np.median(signs))
    for region in mesh.regions.values():
        dR = region.Rxy.ylow[:, 1:] - region.Rxy.ylow[:, :-1]
        dZ = region.Zxy.ylow[:, 1:] - region.Zxy.ylow[:, :-1]
        gR, gZ = oracles.fd_grad(psi, region.Rxy.centre, region.Zxy.centre, h=1e-4 * L)
        BR, BZ = gZ / region.Rxy.centre, -gR / region.Rxy.centre
        s = np.sign(BR * dR + BZ * dZ)
        cb = cellbox(eq, region, margin=2e-4 * L)
        ncell += int(cb.sum())
        ndis += int(((s != gsign) & cb).sum())
    out.append(rec("sign(Bpxy)=sign(Bp.d(r)/dy)_every_cell", cls, ncell, ndis, 0))
    if nout:
        out.append(rec("informational: grid points outside the psi data box left out of the derivative-based predicates", cls + "|outside-box", nout, 0, 0))

    # ---- pressure --------------------------------------------------------------------
    extrap = bool(opts.get("extrapolate_profiles"))
    P_plain = fam.P_of_psinorm
    if extrap and fam.prof:
        # documented: exponential decay outside the tabulated range, built from the value
        # and the gradient of the last two tabulated points
        nf = fam.nR
        hN = fam.pn_max / (nf - 1)
        p_edge = float(P_plain(fam.pn_max))
        dpdn = (p_edge - float(P_plain(fam.pn_max - hN))) / hN  # d p / d psi_N

        def P_ext(pn):
            pn = np.asarray(pn, float)
            inner = P_plain(np.minimum(pn, fam.pn_max))
            return np.where(pn > fam.pn_max, p_edge * np.exp((pn - fam.pn_max) * dpdn / p_edge), inner)

        fam_P = P_ext
        # continuity at the edge and decay along the extension, straight from eq.pressure
        psi_edge = pa + fam.pn_max * (pb - pa)
        d_ = 1e-7 * (pb - pa)
        jump = abs(float(eq.pressure(psi_edge + d_)) - float(eq.pressure(psi_edge - d_))) / p_edge
        out.append(rec("extrapolated pressure continuous at the plasma edge", cls, 1, jump, 1e-5, sig="jump of %.3g x p_edge at psi1D[-1]" % jump if jump > 1e-5 else None))
        psi_out = opts.get("psi_sol")
        if psi_out is not None:
            pe = np.linspace(psi_edge, float(psi_out), 200)
            pv = np.array([float(eq.pressure(x)) for x in pe])
            mono = np.diff(pv) * np.sign(dpdn) * np.sign(1.0)  # decays when dp/dpsi_N < 0
            out.append(rec("extrapolated pressure decays monotonically beyond the edge", cls, len(pe), int((mono < -1e-9 * p_edge).sum()) if dpdn < 0 else 0, 0, sig="pressure range on the extension [%.4g, %.4g], p_edge %.4g" % (pv.min(), pv.max(), p_edge)))
            out.append(rec("extrapolated pressure = p_edge*exp((psi-psi_edge)*p'/p_edge)", cls, len(pe), amax(np.abs(pv - P_ext(psin(pe)))) / p_edge, 1e-4))
    else:
        fam_P = P_plain
    if fam.prof and "pressure" in nc:
        # which separatrix a leg reflects about: the X-point it is attached to (oracle:
        # analytic critical points, lower legs <-> lower X-point)
        xs = sorted(fam.critical_points()[1][:2], key=lambda p: p[1])  # by Z
        oZ = fam.critical_points()[0][0][1]
        sign_out = np.sign(pb - pa)
        Pscale = float(fam.P_of_psinorm(0.0))
        worst = {"core": 0.0, "leg": 0.0}
        nn = {"core": 0, "leg": 0}
        where = {}
        for rid, region in mesh.regions.items():
            name = region.equilibriumRegion.name
            for loc in ("centre", "xlow", "ylow"):
                p_code = getattr(region.pressure, loc)
                ps = getattr(region.psixy, loc)
                if "core" in name:
                    expP = fam_P(psin(ps))
                    k = "core"
                else:
                    lower = "lower" in name
                    cand = [x for x in xs if (x[1] < oZ) == lower]
                    if not cand:
                        continue
                    leg_psi = pf * cand[0][2]
                    expP = fam_P(psin(leg_psi + sign_out * np.abs(ps - leg_psi)))
                    k = "leg"
                e = np.abs(p_code - expP) / Pscale
                nn[k] += e.size
                if amax(e) > worst[k] or np.isnan(amax(e)):
                    worst[k] = amax(e)
                    where[k] = {"region": region.name, "loc": loc, "index": argmax_where(e)}
        for k in ("core", "leg"):
            if nn[k]:
                out.append(rec("pressure=profile(psi)." + k, cls, nn[k], worst[k], ptol, where=where.get(k), note="legs: reflected about the leg's own separatrix; error relative to p(axis)"))
        # file = memory assembly
        e = 0.0
        for rid, region in mesh.regions.items():
            e = max(e, amax(np.abs(nc["pressure"][mesh.region_indices[rid]] - region.pressure.centre)))
        out.append(rec("pressure_file=regions", cls, nc["pressure"].size, e, 0.0))

    # ---- scalars -------------------------------------------------------------------------
    oa = fam.critical_points()[0][0]
    xa = fam.critical_points()[1][0]
    Ro, Zo = newton_crit(psi, oa[0], oa[1], L)
    Rx, Zx = newton_crit(psi, xa[0], xa[1], L)
    # the primary X-point is the one whose psi is closest to the axis value (a double
    # null has two; the analytic family lists them in no particular order)
    p_o = float(psi(Ro, Zo))
    for xb in fam.critical_points()[1][1:2]:
        Rb, Zb = newton_crit(psi, xb[0], xb[1], L)
        if abs(float(psi(Rb, Zb)) - p_o) < abs(float(psi(Rx, Zx)) - p_o):
            Rx, Zx = Rb, Zb
            xa = xb
    prange = abs(pb - pa)
    ctol = 5e-4 if dct else 1e-6
    out.append(rec("psi_axis=psi(O-point)", cls, 1, abs(float(nc["psi_axis"]) - float(psi(Ro, Zo))) / prange, ctol))
    out.append(rec("psi_bdry=psi(primary X-point)", cls, 1, abs(float(nc["psi_bdry"]) - float(psi(Rx, Zx))) / prange, ctol))
    if fam.fs != 0:
        expBt = ff * float(fam.F_of_psinorm(0.0)) / Ro
        out.append(rec("Bt_axis=fpol(psi_axis)/R_axis", cls, 1, abs(float(nc["Bt_axis"]) - expBt) / abs(expBt), 1e-4, note="bounded by the accuracy of the O-point position (xpoint_refine_atol on Bp^2)"))
    # the interpolant's critical points are where the analytic ones are
    out.append(rec("O/X-point_of_interpolant_near_analytic", cls, 2, max(np.hypot(Ro - oa[0], Zo - oa[1]), np.hypot(Rx - xa[0], Zx - xa[1])) / L, 2e-3))
    return out
