"""C01  Every grid point lies on its flux surface (offline monitor on a capture)."""

import numpy as np

from ..gridutil import LOCS, amax, argmax_where, case_class, pinned_mask, psi_row
from ..rec import rec

PROPERTY = "C01"


def applies(spec):
    return spec.get("kind", "tok") in ("tok", "circ", "torpex")


def _tau(opts, psival):
    # refinePointNewton / Linesearch accept |f| < atol*|psival| or |f| < atol
    return 1.5 * float(opts.refine_atol) * np.maximum(1.0, np.abs(psival))


def run(cap):
    out = []
    cls = case_class(cap.spec)
    eq, mesh = cap.eq, cap.mesh
    psi = eq.psi
    opts = mesh.user_options
    nxp = len(getattr(eq, "x_points", []))

    # ---- in memory: every region, all four locations --------------------------------
    worst = {loc: 0.0 for loc in LOCS}
    where = {}
    npts = {loc: 0 for loc in LOCS}
    n_pinned = 0
    pin_bad = 0
    for rid, region in mesh.regions.items():
        pm = pinned_mask(region)
        n_pinned += int(pm.sum())
        for loc in LOCS:
            R = getattr(region.Rxy, loc)
            Z = getattr(region.Zxy, loc)
            row = psi_row(region, loc)[:, None]
            res = np.abs(psi(R, Z) - row) / _tau(opts, row)
            if loc == "corners":
                res = np.where(pm, 0.0, res)
            npts[loc] += R.size
            w = amax(res)
            if not (w <= worst[loc]):
                worst[loc] = w
                where[loc] = {"region": region.name, "index": argmax_where(res)}
        # bookkeeping-independent check that pins only occur at region corners
        ii, jj = np.nonzero(pm)
        for i, j in zip(ii, jj):
            if not (i in (0, pm.shape[0] - 1) and j in (0, pm.shape[1] - 1)):
                pin_bad += 1
    for loc in LOCS:
        out.append(rec("mem.psi_on_surface." + loc, cls, npts[loc], worst[loc], 1.0, where=where.get(loc), note="residual in units of 1.5*refine_atol*max(1,|psi|)"))
    out.append(rec("mem.pinned_corner_count", cls, 1, abs(n_pinned - 8 * nxp), 0.0, where={"pinned": n_pinned, "x_points": nxp}, sig="pinned=%d expected=%d" % (n_pinned, 8 * nxp)))
    out.append(rec("mem.pinned_only_at_region_corners", cls, max(1, n_pinned), pin_bad, 0.0))

    # ---- contours: psival of each contour equals psi_vals[i]; all points on it -------
    wc = 0.0
    nc = 0
    wlab = 0.0
    for region in mesh.regions.values():
        for i, c in enumerate(region.contours):
            wlab = max(wlab, abs(c.psival - region.psi_vals[i]) / float(np.spacing(max(abs(region.psi_vals[i]), 1e-300))))
            pts = np.array([[p.R, p.Z] for p in c])
            r = np.abs(psi(pts[:, 0], pts[:, 1]) - region.psi_vals[i]) / _tau(opts, region.psi_vals[i])
            wc = max(wc, amax(r)) if not np.isnan(amax(r)) else float("nan")
            nc += len(pts)
    out.append(rec("mem.contour_points_on_surface", cls, nc, wc, 1.0))
    out.append(rec("mem.contour_psival_label", cls, nc, wlab, 4.0, note="in units of the floating-point spacing of the value"))

    # ---- file: R,Z arrays vs psixy arrays vs the region rows ---------------------------
    nc_ = cap.nc
    if hasattr(mesh, "region_indices"):
        # expected psi per global row at centre / xlow positions, from the regions
        nx, ny = nc_["Rxy"].shape
        row_c = np.full((nx, ny), np.nan)
        row_x = np.full((nx, ny), np.nan)
        for rid, region in mesh.regions.items():
            sl = mesh.region_indices[rid]
            row_c[sl] = psi_row(region, "centre")[:, None]
            row_x[sl] = psi_row(region, "xlow")[:-1, None]
        xp = [(p.R, p.Z) for p in getattr(eq, "x_points", [])]

        def pinned_file(Rn, Zn):
            m = np.zeros(nc_[Rn].shape, bool)
            for r, z in xp:
                m |= (nc_[Rn] == r) & (nc_[Zn] == z)
            return m

        checks = [
            ("centre", "Rxy", "Zxy", "psixy", row_c),
            ("xlow", "Rxy_xlow", "Zxy_xlow", "psixy_xlow", row_x),
            ("ylow", "Rxy_ylow", "Zxy_ylow", "psixy_ylow", row_c),
        ]
        for loc, Rn, Zn, Pn, row in checks:
            p = psi(nc_[Rn], nc_[Zn])
            tau = _tau(opts, row)
            out.append(rec("file.psi(R,Z)=row." + loc, cls, p.size, amax(np.abs(p - row) / tau), 1.0, where=argmax_where(np.abs(p - row))))
            out.append(rec("file.psixy=row." + loc, cls, p.size, amax(np.abs(nc_[Pn] - row) / tau), 1.0))
            # psixy constant along y inside a region
            wv = 0.0
            for rid, region in mesh.regions.items():
                blk = nc_[Pn][mesh.region_indices[rid]]
                wv = max(wv, amax((blk.max(axis=1) - blk.min(axis=1)) / _tau(opts, blk[:, 0])))
            out.append(rec("file.psixy_const_along_y." + loc, cls, len(mesh.regions), wv, 2.0))
        # psixy is one value along a whole flux tube: the y-neighbour BOUT++ reads from the topology
        # integers (across region joins and branch cuts) has the psixy of the same radial index
        try:
            from ..boutindex import Topo

            up = Topo(nc_).up_map()
            wj = 0.0
            nj = 0
            whj = None
            for Pn in ("psixy", "psixy_xlow"):
                A = nc_[Pn]
                for (x, f), g in up.items():
                    if g is None:
                        continue
                    # psixy is psi evaluated at the (refined) point: equal to the refinement tolerance
                    e = abs(A[x, f] - A[x, g]) / (2.0 * float(_tau(opts, A[x, f])))
                    nj += 1
                    if e > wj:
                        wj = e
                        whj = {"var": Pn, "x": int(x), "y": int(f), "y_neighbour": int(g), "values": [float(A[x, f]), float(A[x, g])]}
            out.append(rec("file.psixy equal in y-neighbouring cells (BOUT++ neighbour map, across joins)", cls, nj, wj, 1.0, where=whj, note="difference in units of twice the point-refinement tolerance"))
        except Exception as e:  # noqa: BLE001
            out.append(rec("informational: y-neighbour map not evaluated (%s)" % type(e).__name__, cls + "|no-topology", 0, 0, 0))
        tot_pin = 0
        for suffix, drow in (("corners", 0), ("lower_right_corners", 1), ("upper_left_corners", 0), ("upper_right_corners", 1)):
            Rn, Zn = "Rxy_" + suffix, "Zxy_" + suffix
            # right corners sit on the next x-face: build the expected row
            row = np.full((nx, ny), np.nan)
            for rid, region in mesh.regions.items():
                sl = mesh.region_indices[rid]
                rr = psi_row(region, "corners")
                row[sl] = (rr[1:] if drow else rr[:-1])[:, None]
            pm = pinned_file(Rn, Zn)
            tot_pin += int(pm.sum())
            p = psi(nc_[Rn], nc_[Zn])
            res = np.where(pm, 0.0, np.abs(p - row) / _tau(opts, row))
            out.append(rec("file.psi(R,Z)=row." + suffix, cls, p.size, amax(res), 1.0, where=argmax_where(res)))
        out.append(rec("file.pinned_corner_count", cls, 1, abs(tot_pin - 8 * nxp), 0.0, sig="pinned=%d expected=%d" % (tot_pin, 8 * nxp)))
    return out
