"""C07  Curvature outputs are the contravariant components of curl(b/B)."""

import numpy as np

from .. import oracles
from ..gridutil import amax, argmax_where, case_class, inbox
from ..rec import rec
from .c02 import xpoint_cells
from .c06 import nu_function  # noqa: F401  (shares the profile handling)

PROPERTY = "C07"


def applies(spec):
    return spec.get("kind", "tok") in ("tok", "circ")


def make_field(cap):
    """Returns A(R,Z) -> (BR/B^2, BZ/B^2, Bzeta/B^2) from fd of psi and the analytic fpol."""
    eq, fam = cap.eq, cap.fam
    psi = eq.psi
    L = oracles.length_scale(eq)
    if fam is not None:
        from .c03 import transform

        pf, ff = transform(cap.spec)
        pa, pb = pf * fam.psi_axis, pf * fam.psi_bdry

        def F(p):
            if fam.fs == 0:
                return 0.0 * p
            return ff * fam.F_of_psinorm((p - pa) / (pb - pa))

    else:

        def F(p):
            return eq.fpol(p) + 0.0 * p

    def Bvec(R, Z):
        gR, gZ = oracles.fd_grad(psi, R, Z, h=1e-4 * L)
        BR = gZ / R
        BZ = -gR / R
        Bz = F(psi(R, Z)) / R
        return BR, BZ, Bz

    def A(R, Z):
        BR, BZ, Bz = Bvec(R, Z)
        B2 = BR**2 + BZ**2 + Bz**2
        return BR / B2, BZ / B2, Bz / B2

    return Bvec, A, L


def curl_A(A, R, Z, h):
    def d(comp, h):
        fR = (A(R + h, Z)[comp] - A(R - h, Z)[comp]) / (2 * h)
        fZ = (A(R, Z + h)[comp] - A(R, Z - h)[comp]) / (2 * h)
        return fR, fZ

    der = []
    for comp in range(3):
        a = d(comp, h)
        b = d(comp, h / 2)
        der.append(((4 * b[0] - a[0]) / 3, (4 * b[1] - a[1]) / 3))
    (dARdR, dARdZ), (dAZdR, dAZdZ), (dAzdR, dAzdZ) = der
    Az = A(R, Z)[2]
    cR = -dAzdZ
    cZ = Az / R + dAzdR
    cz = dARdZ - dAZdR
    return cR, cZ, cz


def run(cap):
    out = []
    cls = case_class(cap.spec)
    eq, mesh, nc = cap.eq, cap.mesh, cap.nc
    psi = eq.psi
    orth = bool(mesh.user_options.orthogonal)
    ctype = mesh.user_options.curvature_type
    xy_form = ctype != "curl(b/B)"
    if xy_form:
        cls += "|xyderiv"
    if mesh.user_options.curvature_smoothing is not None:
        return out
    Bvec, A, L = make_field(cap)
    kink = None
    if cap.fam is not None and cap.fam.fs != 0:
        from .c03 import transform

        pf_, _ = transform(cap.spec)
        pa_, pb_ = pf_ * cap.fam.psi_axis, pf_ * cap.fam.psi_bdry
        pmax = cap.fam.pn_max

        def kink(p):
            return (p - pa_) / (pb_ - pa_) - pmax

    W = {}

    def upd(key, err, scale, region, loc):
        w = W.setdefault(key, {"worst": 0.0, "n": 0, "where": None, "scale": 0.0, "errs": []})
        w["n"] += err.size
        w["scale"] = max(w["scale"], scale)
        w["errs"].append(np.ravel(err))
        m = amax(err)
        if m != m or m > w["worst"]:
            w["worst"] = m
            w["where"] = {"region": region.name, "loc": loc, "index": argmax_where(err)}

    scales = {k: max(amax(np.abs(nc["curl_bOverB_" + k])), 1e-300) for k in "xyz"}
    zero_xlow = []
    ntilt = [0]
    joinrows = {}
    nout = [0]
    for region in mesh.regions.values():
        xc = xpoint_cells(region)
        for loc in ("centre", "xlow", "ylow"):
            R = getattr(region.Rxy, loc)
            Z = getattr(region.Zxy, loc)
            hy = getattr(region.hy, loc)
            Bp = getattr(region.Bpxy, loc)
            Bt = getattr(region.Btxy, loc)
            Bx = getattr(region.Bxy, loc)
            cR, cZ, cz = curl_A(A, R, Z, 2e-4 * L)
            gR, gZ = oracles.fd_grad(psi, R, Z, h=1e-4 * L)
            code = {k: getattr(getattr(region, "curl_bOverB_" + k), loc) for k in "xyz"}
            cx = cR * gR + cZ * gZ
            # outside the psi data box the interpolated psi has no derivatives (gridutil.psi_box)
            M = inbox(eq, R, Z, margin=5e-4 * L)
            nout[0] += int((~M).sum())
            selx = M if kink is None else (M & (np.abs(kink(psi(R, Z))) > 0.03))
            upd("curl_bOverB_x." + loc, np.where(selx, np.abs(code["x"] - cx), 0.0), scales["x"], region, loc)
            BR, BZ = gZ / R, -gR / R
            bp = np.hypot(BR, BZ)
            sgn = np.sign(Bp)
            if orth:
                gyR, gyZ = sgn * BR / (bp * hy), sgn * BZ / (bp * hy)
            else:
                if loc == "centre":
                    eR = region.Rxy.xlow[1:] - region.Rxy.xlow[:-1]
                    eZ = region.Zxy.xlow[1:] - region.Zxy.xlow[:-1]
                elif loc == "ylow":
                    eR = region.Rxy.corners[1:] - region.Rxy.corners[:-1]
                    eZ = region.Zxy.corners[1:] - region.Zxy.corners[:-1]
                else:
                    if np.all(code["y"] == 0.0) and np.all(code["z"] == 0.0):
                        zero_xlow.append(region.name)
                    continue
                en = np.hypot(eR, eZ)
                exR, exZ = eR / en, eZ / en
                # unit normal to e_x on the side of increasing y (= along sgn*Bp roughly)
                nR, nZ = -exZ, exR
                s2 = np.sign(nR * sgn * BR + nZ * sgn * BZ)
                nR, nZ = nR * s2, nZ * s2
                cosb = np.abs(exR * gR + exZ * gZ) / np.hypot(gR, gZ)
                gyR, gyZ = nR / (hy * cosb), nZ / (hy * cosb)
                ntilt[0] += int((np.sqrt(np.maximum(0.0, 1 - cosb**2)) / cosb > 0.1).sum())
            cy = cR * gyR + cZ * gyZ
            czz = cz / R - Bt * hy / (Bp * R) * cy
            sel = M
            if kink is not None:
                # the tabulated fpol ends (constant continuation) inside the grid: its derivative
                # jumps there and the oracle's finite differences straddle the kink
                sel = M & (np.abs(kink(psi(R, Z))) > 0.03)
            if xy_form and loc == "ylow" and region.ny >= 3:
                # the x-y form differentiates across region joins: kept per region, compared below (only
                # the x component contains a y-derivative)
                joinrows[region.myID] = np.where(selx, np.abs(code["x"] - cx), 0.0) / scales["x"]
            upd("curl_bOverB_y." + loc, np.where(sel, np.abs(code["y"] - cy), 0.0), scales["y"], region, loc)
            upd("curl_bOverB_z." + loc, np.where(sel, np.abs(code["z"] - czz), 0.0), scales["z"], region, loc)
            for k in "xyz":
                b = getattr(getattr(region, "bxcv" + k), loc)
                upd("bxcv=Bxy/2*curl." + loc, np.abs(b - 0.5 * Bx * code[k]) / (np.abs(b) + 1e-300) if np.any(b != 0) else np.abs(b), 1.0, region, loc)
    for key, w in sorted(W.items()):
        errs = np.concatenate(w["errs"])
        if key.startswith("bxcv"):
            out.append(rec(key, cls, w["n"], w["worst"], 1e-13, where=w["where"]))
            continue
        comp = key.split("_")[-1][0]
        if xy_form:
            # finite-difference formulation: agreement to the discretisation error of the grid
            med = float(np.median(errs)) / w["scale"]
            out.append(rec(key + " [x-y derivative form, median]", cls, w["n"], med, 0.05, where=w["where"], note="median |difference| relative to the field-wide scale"))
            continue
        thr = 1e-4 if comp == "x" else 1e-3
        out.append(rec(key, cls, w["n"], w["worst"] / w["scale"], thr, where=w["where"], note="max |difference| relative to the field-wide scale; non-orthogonal: grad(y) = unit normal of the measured e_x / (hy cos(beta)), beta measured by the oracle"))
    # the first y-face after a join is as accurate as its neighbours on either side: the face above it
    # in the same region and the last interior face of the lower neighbour (second-order scheme: the
    # error varies smoothly along y; a wrong difference across the join is an O(1) error of the derivative)
    wj, nj, whj = 0.0, 0, None
    for region in mesh.regions.values():
        lid = region.connections["lower"]
        if region.myID not in joinrows or lid is None or lid not in joinrows:
            continue
        e_here, e_low = joinrows[region.myID], joinrows[lid]
        ej = e_here[:, 0]
        ref = np.maximum(np.maximum(e_here[:, 1], e_low[:, -2]), 2e-3)
        r_ = ej / (3.0 * ref)
        nj += r_.size
        if amax(r_) > wj:
            wj = amax(r_)
            whj = {"region": region.name, "x": argmax_where(r_), "join_error": float(ej[argmax_where(r_)[0]]), "neighbour_error": float(ref[argmax_where(r_)[0]])}
    if nj:
        out.append(rec("x-y derivative form: curl_bOverB_x at the first y-face after a region join as accurate as the faces next to it", cls, nj, wj, 1.0, where=whj, note="error at the join face / (3 x the larger error at the two neighbouring faces, floor 2e-3 of the field scale)"))
    if nout[0]:
        out.append(rec("informational: grid points outside the psi data box left out", cls + "|outside-box", nout[0], 0, 0))
    if not orth:
        # the y/z components only test the grad(y) construction where the grid really is tilted
        out.append(rec("informational: non-orthogonal points with |tan(beta)| > 0.1 among those compared", cls + "|tilted", ntilt[0], 0, 0))
    if zero_xlow:
        out.append(rec("curl_bOverB_y/z at xlow not identically zero", cls, len(zero_xlow), len(zero_xlow), 0, sig="y and z curvature components identically zero at xlow (non-orthogonal)"))
    return out
