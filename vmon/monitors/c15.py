"""C15 (single-case part): after a history of redistributePoints calls the settings other
than nonorthogonal_* are unchanged, and no contour carries a stale distance cache."""

import numpy as np

from ..gridutil import amax, case_class
from ..rec import rec

PROPERTY = "C15"


def applies(spec):
    return bool(spec.get("history"))


def run(cap):
    out = []
    cls = case_class(cap.spec) + "|history%d" % len(cap.spec.get("history", []))
    mesh, eq = cap.mesh, cap.eq
    opts = cap.spec.get("opts", {})
    changed = []
    for k, v in opts.items():
        if k.startswith("nonorthogonal_"):
            continue
        for holder, nm in ((mesh.user_options, "mesh"), (eq.user_options, "equilibrium")):
            if k in holder and holder[k] != v:
                changed.append("%s.%s: %r -> %r" % (nm, k, v, holder[k]))
    out.append(rec("settings other than nonorthogonal_* unaffected by redistributePoints", cls, len(opts), len(changed), 0, sig="; ".join(changed)[:300]))
    # final nonorthogonal options are the last ones given
    last = cap.spec["history"][-1]
    bad = [k for k, v in last.items() if k.startswith("nonorthogonal_") and eq.nonorthogonal_options[k] != v]
    out.append(rec("nonorthogonal options = the last settings given", cls, len(last), len(bad), 0, sig=",".join(bad)))
    for r in eq.regions.values():
        bad2 = [k for k, v in last.items() if k.startswith("nonorthogonal_") and r.nonorthogonal_options[k] != v]
        if bad2:
            out.append(rec("every EquilibriumRegion carries the last settings", cls, 1, len(bad2), 0, sig=r.name + ":" + ",".join(bad2)))
    # stale cache probe: recompute a few contours' distances from scratch
    w = 0.0
    n = 0
    for region in mesh.regions.values():
        for ic in sorted(set([0, len(region.contours) // 2, len(region.contours) - 1])):
            c = region.contours[ic]
            cached = np.array(c.get_distance(psi=eq.psi))
            fresh = c.newContourFromSelf()
            d2 = np.array(fresh.get_distance(psi=eq.psi))
            a = cached - cached[c.startInd]
            b = d2 - d2[fresh.startInd]
            tot = max(abs(b[-1] - b[0]), 1e-300)
            w = max(w, amax(np.abs(a - b)) / tot)
            n += len(a)
    Nfine = float(mesh.user_options.finecontour_Nfine)
    out.append(rec("cached contour distances = distances recomputed from the current points", cls, n, w, 2e-3 * (100.0 / Nfine) ** 2, note="relative to the contour length; bound = accuracy of two independent FineContours"))
    return out
