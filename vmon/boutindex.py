"""BOUT++'s documented meaning of the topology integers, implemented from the BOUT++
manual / BoutMesh topology rules -- never from hypnotoad's BoutMesh.

Everything is expressed in *file* y-indices (which include the y_boundary_guards cells
hypnotoad stores at each target)."""

import numpy as np


class Topo:
    def __init__(self, nc):
        self.nx, self.nyf = nc["Rxy"].shape
        self.ny = int(nc["ny"])
        self.myg = int(nc["y_boundary_guards"])
        self.ix1, self.ix2 = int(nc["ixseps1"]), int(nc["ixseps2"])
        self.j11, self.j21, self.j12, self.j22 = (int(nc[k]) for k in ("jyseps1_1", "jyseps2_1", "jyseps1_2", "jyseps2_2"))
        self.nyi = int(nc["ny_inner"])
        self.two_targets_in_middle = self.j21 != self.j12
        extra = self.nyf - self.ny
        self.nblocks = extra // self.myg if self.myg else None
        if self.myg and self.nblocks == 0:
            # y_boundary_guards is set but the grid has no targets (core-only): no guard cells stored
            self.myg = 0
        self.raw = (self.j11, self.j21, self.j12, self.j22)
        # what BOUT++ does with out-of-order values when it loads the grid
        # (BoutMesh::load): it silently resets them, which changes the topology
        if self.j11 < -1:
            self.j11 = -1
        if self.j21 < self.j11:
            self.j21 = self.j11 + 1
        if self.j12 < self.j21:
            self.j12 = self.j21
        if self.j22 >= self.ny:
            self.j22 = self.ny - 1
        if self.j22 < self.j12:
            self.j22 = self.j12
        self.two_targets_in_middle = self.j21 != self.j12

    # -- constraints BOUT++ itself imposes when it loads the grid -----------------------
    def ordering_problems(self):
        p = []
        (j11, j21, j12, j22), ny = self.raw, self.ny
        if j11 < -1:
            p.append("jyseps1_1=%d < -1" % j11)
        if j21 < j11:
            p.append("jyseps2_1=%d < jyseps1_1=%d (BOUT++ resets jyseps2_1)" % (j21, j11))
        if j12 < j21:
            p.append("jyseps1_2=%d < jyseps2_1=%d (BOUT++ resets jyseps1_2)" % (j12, j21))
        if j22 < j12:
            p.append("jyseps2_2=%d < jyseps1_2=%d (BOUT++ resets jyseps2_2)" % (j22, j12))
        if j22 > ny - 1:
            p.append("jyseps2_2=%d > ny-1=%d (BOUT++ resets jyseps2_2)" % (j22, ny - 1))
        if self.two_targets_in_middle and not (j21 < self.nyi <= j12 + 1):
            p.append("ny_inner=%d not between the upper legs (%d, %d]" % (self.nyi, j21, j12 + 1))
        if self.ix1 < -1 or self.ix2 < -1 or self.ix1 > self.nx or self.ix2 > self.nx:
            p.append("ixseps out of range")
        return p

    def fidx(self, j):
        """BOUT y index (no guards) -> file y index."""
        if self.myg == 0:
            return j
        if self.two_targets_in_middle and self.nblocks == 4:
            return j + self.myg if j < self.nyi else j + 3 * self.myg
        return j + self.myg

    def up_map(self):
        """dict (x, f) -> file y-index of the upper y-neighbour, or None at a target.
        Includes the guard cells stored beyond each target (they continue the leg)."""
        nx, nyf, myg = self.nx, self.nyf, self.myg
        j11, j21, j12, j22 = self.j11, self.j21, self.j12, self.j22
        lower, upper = self.ix1, self.ix2
        inner, outer = min(lower, upper), max(lower, upper)
        # default: next row, except at the end of a block of rows that ends in a target
        ends = {nyf - 1}
        if self.two_targets_in_middle:
            ends.add(self.fidx(self.nyi - 1) + myg)  # last guard row of the first half
        up = {}
        for x in range(nx):
            for f in range(nyf):
                up[(x, f)] = None if f in ends else f + 1
        F = self.fidx

        def cut(j_from, j_to, xs):
            if j_from < 0 or j_from > self.ny - 1 or j_to > self.ny - 1:
                return
            for x in xs:
                up[(x, F(j_from))] = F(j_to)

        if not self.two_targets_in_middle:
            if j11 >= 0 or j22 < self.ny - 1:
                cut(j11, j22 + 1, range(0, min(lower, nx)))  # private flux region
            if j22 > j11:
                cut(j22, j11 + 1, range(0, min(lower, nx)))  # closed core surfaces
        else:
            cut(j11, j22 + 1, range(0, min(lower, nx)))  # lower PFR
            cut(j12, j21 + 1, range(0, min(upper, nx)))  # upper PFR
            if j21 > j11:
                cut(j21, j12 + 1, range(0, min(inner, nx)))  # core: inner -> outer (top)
            if j22 > j12:
                cut(j22, j11 + 1, range(0, min(inner, nx)))  # core: outer -> inner (bottom)
            if lower < upper:
                cut(j21, j12 + 1, range(inner, min(outer, nx)))
            elif upper < lower:
                cut(j22, j11 + 1, range(inner, min(outer, nx)))
        return up

    def core_rows(self):
        """file y indices of the core cells, in poloidal order starting from the first
        core cell in y-index order."""
        rows = []
        if not self.two_targets_in_middle:
            rows = [self.fidx(j) for j in range(self.j11 + 1, self.j22 + 1)]
        else:
            rows = [self.fidx(j) for j in range(self.j11 + 1, self.j21 + 1)] + [self.fidx(j) for j in range(self.j12 + 1, self.j22 + 1)]
        return rows

    def core_x(self):
        return min(self.ix1, self.ix2, self.nx)
