"""Analytic equilibrium families, walls and base option sets.

Every family has a closed-form psi(R,Z) with closed-form gradient and Hessian, so the
oracles never depend on hypnotoad's own interpolation or critical-point search.
"""

import math

import numpy as np

# ----------------------------------------------------------------------------------
# Gaussian-sum tokamak family
# ----------------------------------------------------------------------------------


class GaussFamily:
    """psi = s * sum_k a_k exp(-((R-R_k)^2 + (Z-Z_k)^2)/w_k^2), optionally mirrored
    in Z.  Parameters come from a small JSON-able dict `e`:

    topo   lsn | usn | cdn | ldn | udn | udn2
    s      +1 / -1      sign of psi (psi increasing / decreasing ... see psi_out)
    shift  [dR, dZ]     sub-grid shift of all centres
    eps    separatrix gap parameter for ldn/udn
    nR,nZ  array sizes; Rlim, Zlim box
    mirror reflect Z -> -Z after everything else
    fs     sign of fpol (0: no fpol); prof: 'exp' | 'quad' | None (no pressure)
    """

    def __init__(self, e):
        self.e = dict(e)
        topo = e.get("topo", "lsn")
        self.topo = topo
        self.s = float(e.get("s", 1.0)) * float(e.get("pscale", 1.0))
        self.poff = float(e.get("poff", 0.0))  # constant added to psi (moves the zero of psi)
        self.L = float(e.get("scale", 1.0))  # geometric scale factor of the whole machine
        self.zoff = float(e.get("zoff", 0.0))  # vertical offset of the whole machine (applied after scaling)
        dR, dZ = e.get("shift", [0.0, 0.0])
        eps = float(e.get("eps", 0.003))
        r0, z0, w = 1.5 + dR, 0.3, float(e.get("w", 0.3))
        a2 = float(e.get("a2", 1.0))  # amplitude of the lower blob (asymmetry)
        if topo == "lsn":
            c = [(r0, 0.0 + dZ, 1.0, w), (r0, -0.6 + dZ, a2, w)]
        elif topo == "usn":
            c = [(r0, 0.0 + dZ, 1.0, w), (r0, 0.6 + dZ, a2, w)]
        elif topo == "cdn":
            c = [(r0, dZ, 1.0, w), (r0, -0.6 + dZ, a2, w), (r0, 0.6 + dZ, a2, w)]
        elif topo == "ldn":  # lower X-point is primary: upper blob further away
            c = [(r0, dZ, 1.0, w), (r0, -0.6 + dZ, a2, w), (r0, 0.6 + eps + dZ, a2, w)]
        elif topo == "udn":
            c = [(r0, dZ, 1.0, w), (r0, -0.6 - eps + dZ, a2, w), (r0, 0.6 + dZ, a2, w)]
        elif topo == "udn2":  # second X-point far away
            c = [(r0, dZ, 1.0, w), (r0, -0.62 + dZ, a2, w), (r0, 0.6 + dZ, a2, w)]
        elif topo == "custom":
            c = [tuple(x) for x in e["centres"]]
        else:
            raise ValueError(topo)
        self.centres = [(self.L * Rk, self.L * Zk + self.zoff, a, self.L * wk) for Rk, Zk, a, wk in c]
        self.mirror = bool(e.get("mirror", False))
        self.Rlim = tuple(self.L * x for x in e.get("Rlim", (1.0, 2.0)))
        self.Zlim = tuple(self.L * x + self.zoff for x in e.get("Zlim", (-0.7, 0.7)))
        self.nR = int(e.get("nR", 65))
        self.nZ = int(e.get("nZ", 65))
        self.fs = float(e.get("fs", 1.0))
        self.prof = e.get("prof", "exp")
        self.fvar = float(e.get("fvar", 0.3))  # size of the variation of fpol across the plasma
        # the 1-d profile grid reaches pn_max in normalised psi (geqdsk: always 1)
        self.pn_max = float(e.get("pn_max", 1.3))
        self._crit = None

    # -- analytic function and derivatives (vectorised) ---------------------------
    def _zz(self, Z):
        return -np.asarray(Z, float) if self.mirror else np.asarray(Z, float)

    def psi(self, R, Z):
        R = np.asarray(R, float)
        Z = self._zz(Z)
        out = 0.0
        for Rk, Zk, a, w in self.centres:
            out = out + a * np.exp(-((R - Rk) ** 2 + (Z - Zk) ** 2) / w**2)
        return self.s * out + self.poff

    def grad(self, R, Z):
        R = np.asarray(R, float)
        Zm = self._zz(Z)
        gR = 0.0
        gZ = 0.0
        for Rk, Zk, a, w in self.centres:
            g = a * np.exp(-((R - Rk) ** 2 + (Zm - Zk) ** 2) / w**2)
            gR = gR + g * (-2 * (R - Rk) / w**2)
            gZ = gZ + g * (-2 * (Zm - Zk) / w**2)
        if self.mirror:
            gZ = -gZ
        return self.s * gR, self.s * gZ

    def hess(self, R, Z):
        R = np.asarray(R, float)
        Zm = self._zz(Z)
        hRR = 0.0
        hRZ = 0.0
        hZZ = 0.0
        for Rk, Zk, a, w in self.centres:
            g = a * np.exp(-((R - Rk) ** 2 + (Zm - Zk) ** 2) / w**2)
            u = -2 * (R - Rk) / w**2
            v = -2 * (Zm - Zk) / w**2
            hRR = hRR + g * (u * u - 2 / w**2)
            hZZ = hZZ + g * (v * v - 2 / w**2)
            hRZ = hRZ + g * u * v
        if self.mirror:
            hRZ = -hRZ
        return self.s * hRR, self.s * hRZ, self.s * hZZ

    # -- critical points by Newton on the analytic gradient -----------------------
    def critical_points(self):
        """Returns (opoints, xpoints): lists of (R, Z, psi), found by a dense
        multi-start Newton iteration on the analytic gradient inside the box."""
        if self._crit is not None:
            return self._crit
        found = []
        Rs = np.linspace(self.Rlim[0], self.Rlim[1], 23)[1:-1]
        Zs = np.linspace(self.Zlim[0], self.Zlim[1], 31)[1:-1]
        for R0 in Rs:
            for Z0 in Zs:
                R, Z = R0, Z0
                ok = False
                for _ in range(60):
                    gR, gZ = self.grad(R, Z)
                    hRR, hRZ, hZZ = self.hess(R, Z)
                    det = hRR * hZZ - hRZ**2
                    if abs(det) < 1e-14:
                        break
                    dR = (hZZ * gR - hRZ * gZ) / det
                    dZ = (-hRZ * gR + hRR * gZ) / det
                    step = math.hypot(dR, dZ)
                    if step > 0.05 * self.L:
                        dR *= 0.05 * self.L / step
                        dZ *= 0.05 * self.L / step
                    R -= dR
                    Z -= dZ
                    if not (self.Rlim[0] < R < self.Rlim[1] and self.Zlim[0] < Z < self.Zlim[1]):
                        break
                    if step < 1e-13:
                        ok = True
                        break
                if not ok:
                    continue
                gR, gZ = self.grad(R, Z)
                if math.hypot(gR, gZ) > 1e-9:
                    continue
                if any(math.hypot(R - f[0], Z - f[1]) < 1e-6 * self.L for f in found):
                    continue
                hRR, hRZ, hZZ = self.hess(R, Z)
                found.append((float(R), float(Z), float(self.psi(R, Z)), float(hRR * hZZ - hRZ**2)))
        opts = [f[:3] for f in found if f[3] > 0]
        xpts = [f[:3] for f in found if f[3] < 0]
        Rc = 0.5 * (self.Rlim[0] + self.Rlim[1])
        Zc = 0.5 * (self.Zlim[0] + self.Zlim[1])
        opts.sort(key=lambda p: (p[0] - Rc) ** 2 + (p[1] - Zc) ** 2)
        if opts:
            pa = opts[0][2]
            xpts.sort(key=lambda p: abs(p[2] - pa))
        self._crit = (opts, xpts)
        return self._crit

    @property
    def psi_axis(self):
        return self.critical_points()[0][0][2]

    @property
    def psi_bdry(self):
        return self.critical_points()[1][0][2]

    def psinorm(self, psi):
        return (np.asarray(psi, float) - self.psi_axis) / (self.psi_bdry - self.psi_axis)

    # -- profiles ------------------------------------------------------------------
    def F_of_psinorm(self, pn):
        pn = np.clip(np.asarray(pn, float), 0.0, self.pn_max)
        if self.prof == "quad":
            return self.fs * (2.0 + self.fvar * (1 - pn) ** 2)
        return self.fs * (2.0 + self.fvar * np.exp(-2.0 * pn))

    def P_of_psinorm(self, pn):
        pn = np.clip(np.asarray(pn, float), 0.0, self.pn_max)
        if self.prof == "quad":
            return 1.0e3 * (1 - pn) ** 2 + 10.0
        return 1.0e3 * np.exp(-3.0 * pn**2) + 10.0

    def fpol(self, psi):
        return self.F_of_psinorm(self.psinorm(psi))

    def pressure(self, psi):
        return self.P_of_psinorm(self.psinorm(psi))

    # -- arrays for TokamakEquilibrium ---------------------------------------------
    def arrays(self, nf=None):
        R1D = np.linspace(self.Rlim[0], self.Rlim[1], self.nR)
        Z1D = np.linspace(self.Zlim[0], self.Zlim[1], self.nZ)
        R2, Z2 = np.meshgrid(R1D, Z1D, indexing="ij")
        psi2D = self.psi(R2, Z2)
        nf = nf or self.nR
        pn = np.linspace(0.0, self.pn_max, nf)
        psi1D = self.psi_axis + pn * (self.psi_bdry - self.psi_axis)
        fpol1D = self.F_of_psinorm(pn) if self.fs != 0 else np.array([])
        pres = self.P_of_psinorm(pn) if self.prof else None
        return R1D, Z1D, psi2D, psi1D, fpol1D, pres


# ----------------------------------------------------------------------------------
# Walls
# ----------------------------------------------------------------------------------


def make_wall(w, mirror=False):
    """w: {'kind': 'box'|'slant'|'poly'|'default', 'n': int, 'cw': bool, 'inset': float}
    Returns list of (R, Z) or None for the equilibrium's default wall."""
    if w is None:
        w = {"kind": "box"}
    kind = w.get("kind", "box")
    if kind == "default":
        return None
    ins = float(w.get("inset", 0.0))
    if kind == "box":
        pts = [(1.2 + ins, -0.5 + ins), (1.8 - ins, -0.5 + ins), (1.8 - ins, 0.5 - ins), (1.2 + ins, 0.5 - ins)]
    elif kind == "slant":
        pts = [(1.2, -0.5), (1.75, -0.45), (1.8, 0.5), (1.25, 0.5)]
    elif kind == "slant2":
        pts = [(1.22, -0.47), (1.8, -0.52), (1.78, 0.48), (1.2, 0.53)]
    elif kind == "baffle":
        # box with a thin outboard baffle above the outer lower target: not star-shaped as seen from
        # the centre of the psi box, so cells inside the wall are hidden behind the baffle
        tip = float(w.get("tip", 1.64))
        zb = float(w.get("zb", -0.40))
        pts = [(1.2, -0.5), (1.8, -0.5), (1.8, zb - 0.02), (tip, zb), (1.8, zb + 0.02), (1.8, 0.5), (1.2, 0.5)]
    elif kind == "nose":
        # box with a blunt inboard nose that every flux surface of the inner lower leg crosses before
        # it reaches the floor (nose face, nose underside, floor: three wall crossings). The gap under
        # the nose is thin, so the guard cells beyond the target stay inside the nose.
        tip = float(w.get("tip", 1.40))
        ztop = float(w.get("ztop", -0.34))
        zbot = float(w.get("zbot", -0.485))
        pts = [(1.2, -0.5), (1.8, -0.5), (1.8, 0.5), (1.2, 0.5), (1.2, ztop + 0.02), (tip, ztop), (tip, zbot), (1.2, zbot)]
    elif kind == "poly":
        n = int(w.get("n", 16))
        ph = float(w.get("phase", 0.1))
        pts = []
        for k in range(n):
            t = 2 * math.pi * (k + ph) / n
            # superellipse approximating the box, anticlockwise
            c, s = math.cos(t), math.sin(t)
            p = 6.0
            r = (abs(c) ** p + abs(s) ** p) ** (-1.0 / p)
            pts.append((1.5 + 0.3 * r * c, 0.5 * r * s))
    else:
        raise ValueError(kind)
    rot = int(w.get("rot", 0))
    if rot:
        # start the (open) vertex list somewhere else: which edge closes the polygon matters to code
        # that forgets the closing edge
        pts = pts[rot % len(pts):] + pts[: rot % len(pts)]
    if w.get("cw", False):
        pts = pts[::-1]
    sc = float(w.get("scale", 1.0))
    zo = float(w.get("zoff", 0.0))
    if sc != 1.0 or zo != 0.0:
        pts = [(sc * r, sc * z + zo) for r, z in pts]
    if mirror:
        pts = [(r, -z) for r, z in pts]
    return pts


# ----------------------------------------------------------------------------------
# Curated base option sets (hand-checked to generate on the unchanged tree)
# ----------------------------------------------------------------------------------

BASE = dict(
    psinorm_core=0.8,
    psinorm_sol=1.2,
    psinorm_pf=0.9,
    nx_core=3,
    nx_sol=3,
    ny_inner_divertor=3,
    ny_outer_divertor=3,
    ny_sol=6,
    psi_spacing_separatrix_multiplier=0.5,
    target_all_poloidal_spacing_length=0.3,
    xpoint_poloidal_spacing_length=0.05,
    y_boundary_guards=1,
    finecontour_Nfine=100,
    refine_timeout=120.0,
)


def base_options(topo, orthogonal=True, interp="spline", **extra):
    o = dict(BASE)
    o["orthogonal"] = bool(orthogonal)
    o["psi_interpolation_method"] = interp
    if topo in ("ldn", "udn"):
        o["nx_inter_sep"] = 1
    if not orthogonal:
        o.update(ny_inner_divertor=4, ny_outer_divertor=4, ny_sol=8)
    o.update(extra)
    return o


_SWAP = [("lower", "upper")]


def mirror_options(opts):
    """Exchange lower <-> upper in option names (for the mirrored equilibrium)."""
    out = {}
    for k, v in opts.items():
        if "lower" in k:
            k2 = k.replace("lower", "upper")
        elif "upper" in k:
            k2 = k.replace("upper", "lower")
        else:
            k2 = k
        out[k2] = v
    return out
