"""Case planning: the shared corpus of full-grid cases per tier, and seeded random
perturbations around the curated bases."""

import copy
import random

from .families import base_options, mirror_options


def tok(topo, s=1, fs=1, orth=True, interp="spline", wall="slant", shift=(0.003, 0.002), guards=1, via="api", eq_extra=None, tag=None, **opt_extra):
    e = {"topo": topo, "s": s, "fs": fs, "shift": list(shift)}
    if interp == "dct":
        # a DCT evaluation costs O(nR*nZ): keep the arrays small
        e.update(nR=33, nZ=33)
    if eq_extra:
        e.update(eq_extra)
    o = base_options(topo, orthogonal=orth, interp=interp, y_boundary_guards=guards, **opt_extra)
    spec = {"kind": "tok", "eq": e, "wall": wall if isinstance(wall, dict) else {"kind": wall}, "via": via, "opts": o}
    if tag:
        spec["tag"] = tag
    return spec


def mirror_of(spec):
    m = copy.deepcopy(spec)
    m["eq"]["mirror"] = not m["eq"].get("mirror", False)
    m["opts"] = mirror_options(m["opts"])
    m["tag"] = (spec.get("tag") or "") + "^mirror"
    return m


CIRC_BASE = dict(
    nx=5,
    ny=16,
    r_inner=0.1,
    r_outer=0.3,
    q_coefficients=[1.1, 8.0],
    B0=2.3,
    R0=1.1,
    finecontour_Nfine=200,
    y_boundary_guards=0,
)


def circ(**extra):
    o = dict(CIRC_BASE)
    o.update(extra)
    return {"kind": "circ", "opts": o}


def torpex(name="torpex-coils"):
    return {"kind": "torpex", "file": "examples/torpex-xpoint/%s.yaml" % name, "tag": name, "timeout": 1500}


def quick_corpus():
    """Every topology x both field signs once, both modes, both interpolants."""
    c = []
    c.append(tok("lsn", s=1, fs=1, tag="lsn-base"))
    c.append(tok("lsn", s=-1, fs=-1, interp="dct", wall="box", guards=2, tag="lsn-dct-rev"))
    c.append(tok("usn", s=-1, fs=1, tag="usn-rev", reverse_current=True))
    c.append(tok("usn", s=1, fs=-1, guards=0, wall={"kind": "poly", "n": 16}, tag="usn-g0-poly"))
    # (all three sign / scale options at once: each is also exercised alone by the C16 pairs)
    c.append(tok("cdn", s=1, fs=1, tag="cdn-base", reverse_current=True, psi_divide_twopi=True, reverse_Bt=True, ny_inner_lower_divertor=3, ny_outer_lower_divertor=5, ny_inner_upper_divertor=4, ny_outer_upper_divertor=6, ny_inner_sol=3, ny_outer_sol=4))
    c.append(tok("cdn", s=-1, fs=-1, orth=False, tag="cdn-nonorth-rev"))
    c.append(tok("cdn", s=1, fs=1, orth=False, wall="slant", guards=0, tag="cdn-nonorth"))
    # double nulls with four different leg sizes and unequal inner/outer core (C08)
    c.append(tok("ldn", s=1, fs=1, tag="ldn-base", eq_extra={"fvar": 2.5}, psinorm_sol_inner=1.12, ny_inner_lower_divertor=3, ny_outer_lower_divertor=4, ny_inner_upper_divertor=5, ny_outer_upper_divertor=6, ny_inner_sol=3, ny_outer_sol=4))
    c.append(tok("ldn", s=-1, fs=1, orth=False, tag="ldn-nonorth-rev"))
    c.append(tok("udn", s=-1, fs=-1, guards=0, tag="udn-rev-g0", psinorm_sol_inner=1.15, ny_inner_lower_divertor=4, ny_outer_lower_divertor=3, ny_inner_upper_divertor=5, ny_outer_upper_divertor=6, ny_inner_sol=3, ny_outer_sol=4))
    c.append(tok("ldn", s=1, fs=-1, interp="dct", guards=0, tag="ldn-dct-g0", eq_extra={"nR": 49, "nZ": 57}))
    c.append(tok("lsn", s=-1, fs=1, orth=False, tag="lsn-nonorth-rev", nonorthogonal_spacing_method="poloidal_orthogonal_combined"))
    c.append(tok("usn", s=-1, fs=-1, tag="usn-xyderiv", curvature_type="curl(b/B) with x-y derivatives", nx_core=4, nx_sol=4))
    # psi decreasing outwards, and fine enough in y for the discretisation error inside the regions to be
    # small compared with a wrong difference across a region join
    c.append(tok("usn", s=1, fs=1, tag="usn-xyderiv-s+", curvature_type="curl(b/B) with x-y derivatives", nx_core=4, nx_sol=4, ny_inner_divertor=8, ny_outer_divertor=8, ny_sol=16))
    c.append(tok("udn", s=1, fs=1, orth=False, guards=2, tag="udn-nonorth-g2"))
    c.append(tok("lsn", s=1, fs=1, via="geqdsk", wall={"kind": "slant", "cw": True}, tag="lsn-geqdsk-cw"))
    # strongly unequal legs (C08) -- long outer leg, long inner leg
    # (fpol varying by 40 % across the plasma: a toroidal field taken from the wrong flux surface shows)
    c.append(tok("lsn", s=1, fs=1, tag="lsn-long-outer", eq_extra={"fvar": 2.5}, ny_inner_divertor=2, ny_outer_divertor=9, ny_sol=4))
    c.append(tok("usn", s=1, fs=1, tag="usn-long-inner", ny_inner_divertor=8, ny_outer_divertor=3, ny_sol=4, guards=2, wall="box"))
    # extrapolated profiles: psi_sol must be given as a number (analytic axis/boundary values)
    from .families import GaussFamily

    e_ = {"topo": "lsn", "s": -1, "fs": 1, "shift": [0.003, 0.002], "pn_max": 1.0}
    f_ = GaussFamily(e_)
    ps = f_.psi_axis + 1.2 * (f_.psi_bdry - f_.psi_axis)
    c.append(tok("lsn", s=-1, fs=1, tag="lsn-extrapolate", eq_extra={"pn_max": 1.0}, extrapolate_profiles=True, psi_sol=ps, psi_sol_inner=ps))
    # a blunt inboard nose that every flux surface of the inner lower leg crosses before it reaches the
    # floor (three wall crossings between the X-point and the floor): the target is the first one.
    # (one guard face of the innermost PFR surface comes out again under the 12 cm thick nose)
    c.append(tok("lsn", s=-1, fs=1, orth=False, tag="lsn-nose-nonorth", wall={"kind": "nose", "tip": 1.40, "zbot": -0.46}, nonorthogonal_spacing_method="poloidal_orthogonal_combined"))
    # psi_sol given as a number overrides psinorm_sol: the second X-point (psi_N = 1.024) lies between the
    # (ignored) psinorm_sol = 1.01 and psi_sol (psi_N = 1.2), so this must be gridded as a double null
    e2_ = {"topo": "ldn", "s": 1, "fs": -1, "shift": [0.003, 0.002]}
    f2_ = GaussFamily(e2_)
    ps2 = f2_.psi_axis + 1.2 * (f2_.psi_bdry - f2_.psi_axis)
    c.append(tok("ldn", s=1, fs=-1, tag="ldn-psisol", psinorm_sol=1.01, psi_sol=ps2, psi_sol_inner=ps2))
    # a radial limit given as the number 0.0 (psi shifted by a constant so that the surface psi_N = 1.2
    # carries the label 0): an explicit zero is a value, not "not given"; psinorm_sol says 1.1
    e3_ = {"topo": "usn", "s": -1, "fs": 1, "shift": [0.003, 0.002]}
    f3_ = GaussFamily(e3_)
    c.append(tok("usn", s=-1, fs=1, tag="usn-psisol-zero", eq_extra={"poff": -(f3_.psi_axis + 1.2 * (f3_.psi_bdry - f3_.psi_axis))}, psinorm_sol=1.1, psi_sol=0.0))
    # the whole machine moved up so that max(Z) > max(R): catches R/Z mix-ups that a domain with |Z|<R hides
    c.append(tok("lsn", s=-1, fs=-1, tag="lsn-zoff", eq_extra={"zoff": 1.9}, wall={"kind": "slant", "zoff": 1.9, "rot": 3}, guards=2))
    # the same kind of grid built by worker processes (number_of_processors=3): the refined contours
    # come back from the workers as copies, so every use of ParallelMap's result is exercised
    c.append(dict(tok("cdn", s=1, fs=-1, orth=False, wall="slant2", tag="cdn-nonorth-np3"), np=3))
    c.append(dict(tok("usn", s=-1, fs=1, tag="usn-np3", guards=2), np=3))
    # a wall that is not star-shaped as seen from the centre of the psi box (which sits high, at
    # Z=0.3): cells inside the wall whose line of sight to that centre crosses the outboard baffle twice
    c.append(tok("lsn", s=1, fs=1, tag="lsn-baffle", wall={"kind": "baffle", "tip": 1.64, "zb": -0.40}, eq_extra={"Zlim": [-0.7, 1.3], "nZ": 92}, psinorm_sol=1.1, ny_outer_divertor=5))
    c.append(circ())
    c.append(dict(circ(y_boundary_guards=2, ny=12), tag="circ-guards2"))
    return c


def thorough_extra(seed):
    rnd = random.Random(seed)
    c = []
    for topo in ("lsn", "usn", "cdn", "ldn", "udn"):
        for k in range(3):
            s = rnd.choice([1, -1])
            fs = rnd.choice([1, -1])
            orth = rnd.random() < 0.6 or topo in ("lsn", "usn")
            interp = rnd.choice(["spline", "dct"])
            wall = rnd.choice(["box", "slant", "slant2", {"kind": "poly", "n": rnd.choice([12, 20, 40]), "phase": rnd.random()}])
            if isinstance(wall, str):
                wall = {"kind": wall}
            wall["cw"] = rnd.random() < 0.5
            wall["rot"] = rnd.randrange(0, 4)
            shift = (round(rnd.uniform(-0.007, 0.007), 5), round(rnd.uniform(-0.007, 0.007), 5))
            extra = {}
            extra["nx_core"] = rnd.randint(2, 5)
            extra["nx_sol"] = rnd.randint(2, 5)
            extra["ny_inner_divertor"] = rnd.randint(2, 7)
            extra["ny_outer_divertor"] = rnd.randint(2, 7)
            extra["ny_sol"] = rnd.choice([4, 6, 8, 10])
            extra["psi_spacing_separatrix_multiplier"] = round(rnd.uniform(0.3, 1.5), 3)
            extra["xpoint_poloidal_spacing_length"] = round(rnd.uniform(0.03, 0.12), 4)
            extra["target_all_poloidal_spacing_length"] = round(rnd.uniform(0.15, 0.6), 3)
            guards = rnd.randint(0, 3)
            zo = rnd.choice([0.0, 0.0, 1.7, -2.3])
            wall["zoff"] = zo
            c.append(tok(topo, s=s, fs=fs, orth=orth, interp=interp, wall=wall, shift=shift, guards=guards, tag="rnd-%s-%d-%d" % (topo, seed, k), eq_extra={"zoff": zo}, **extra))
    c.append(torpex("torpex-coils"))
    return c


def corpus(tier, seed=0):
    c = quick_corpus()
    if tier == "thorough":
        for s in range(3):
            c += thorough_extra(1000 * seed + s)
    return c
