"""Predicate records produced by monitors.

A record says: predicate `pred` was evaluated `n` times in coverage class `cls`; the
worst residual was `worst` against threshold `thr`; ok tells whether it held.  `sig`
is a short mechanism signature used to match known findings; `where` a witness.
"""

import math


def rec(pred, cls, n, worst, thr, ok=None, sig=None, where=None, note=None):
    worst = float(worst) if worst is not None else None
    thr = float(thr) if thr is not None else None
    if ok is None:
        ok = worst is not None and thr is not None and not math.isnan(worst) and worst <= thr
    r = {
        "pred": pred,
        "cls": cls,
        "n": int(n),
        "worst": worst,
        "thr": thr,
        "ok": bool(ok),
    }
    if worst is not None and thr:
        r["margin"] = worst / thr if thr else None
    if sig:
        r["sig"] = sig
    if where is not None:
        r["where"] = where
    if note:
        r["note"] = note
    return r
