"""Exact rational geometry (fractions.Fraction): the reference for C11 and C20."""

from fractions import Fraction as Fr


def F(x):
    return Fr(float(x))  # exact value of the double


def P(p):
    return (F(p[0]), F(p[1]))


def cross(o, a, b):
    return (a[0] - o[0]) * (b[1] - o[1]) - (a[1] - o[1]) * (b[0] - o[0])


def dot(a, b):
    return a[0] * b[0] + a[1] * b[1]


def on_segment(p, a, b):
    """p collinear with a-b and within the closed segment."""
    if cross(a, b, p) != 0:
        return False
    return min(a[0], b[0]) <= p[0] <= max(a[0], b[0]) and min(a[1], b[1]) <= p[1] <= max(a[1], b[1])


def seg_intersection(a, b, c, d):
    """Exact intersection of closed segments ab and cd.
    Returns ('none', None) | ('point', (x, y)) | ('overlap', None) | ('touch', (x,y))
    'point' = proper crossing in the interior of both; 'touch' = a single common point
    that is an end point of at least one segment; 'overlap' = collinear with more than
    one common point."""
    r = (b[0] - a[0], b[1] - a[1])
    s = (d[0] - c[0], d[1] - c[1])
    den = r[0] * s[1] - r[1] * s[0]
    qp = (c[0] - a[0], c[1] - a[1])
    if den == 0:
        if qp[0] * r[1] - qp[1] * r[0] != 0:
            return "none", None
        # collinear
        rr = dot(r, r)
        if rr == 0:
            # ab is a point
            if on_segment(a, c, d):
                return "touch", a
            return "none", None
        t0 = dot(qp, r) / rr
        t1 = t0 + dot(s, r) / rr
        lo, hi = min(t0, t1), max(t0, t1)
        lo, hi = max(lo, Fr(0)), min(hi, Fr(1))
        if lo > hi:
            return "none", None
        if lo == hi:
            return "touch", (a[0] + lo * r[0], a[1] + lo * r[1])
        return "overlap", None
    t = (qp[0] * s[1] - qp[1] * s[0]) / den
    u = (qp[0] * r[1] - qp[1] * r[0]) / den
    if t < 0 or t > 1 or u < 0 or u > 1:
        return "none", None
    pt = (a[0] + t * r[0], a[1] + t * r[1])
    if 0 < t < 1 and 0 < u < 1:
        return "point", pt
    return "touch", pt


def signed_area2(poly):
    """Twice the signed area (positive = anticlockwise)."""
    s = Fr(0)
    n = len(poly)
    for i in range(n):
        x0, y0 = poly[i]
        x1, y1 = poly[(i + 1) % n]
        s += x0 * y1 - x1 * y0
    return s


def winding_inside(p, poly):
    """Exact point-in-polygon (closed polygon given without repeated last point).
    Returns 'inside' | 'outside' | 'boundary'."""
    n = len(poly)
    wn = 0
    for i in range(n):
        a, b = poly[i], poly[(i + 1) % n]
        if on_segment(p, a, b):
            return "boundary"
        if a[1] <= p[1]:
            if b[1] > p[1] and cross(a, b, p) > 0:
                wn += 1
        else:
            if b[1] <= p[1] and cross(a, b, p) < 0:
                wn -= 1
    return "inside" if wn != 0 else "outside"


def dist2_point_segment(p, a, b):
    r = (b[0] - a[0], b[1] - a[1])
    rr = dot(r, r)
    if rr == 0:
        d = (p[0] - a[0], p[1] - a[1])
        return dot(d, d)
    t = dot((p[0] - a[0], p[1] - a[1]), r) / rr
    t = max(Fr(0), min(Fr(1), t))
    q = (a[0] + t * r[0], a[1] + t * r[1])
    d = (p[0] - q[0], p[1] - q[1])
    return dot(d, d)


def dist_point_polyline(p, poly_closed):
    """float distance from p to a closed polyline (list with last == first or not)."""
    import math

    pts = [P(q) for q in poly_closed]
    if pts[0] != pts[-1]:
        pts = pts + [pts[0]]
    pp = P(p)
    best = None
    for i in range(len(pts) - 1):
        d2 = dist2_point_segment(pp, pts[i], pts[i + 1])
        if best is None or d2 < best:
            best = d2
    return math.sqrt(float(best))


def first_crossing_on_segment(a, b, poly_closed):
    """All exact intersection points of segment ab with the closed polyline, sorted by
    the parameter along ab. Returns list of (t, (x,y), kind)."""
    pts = [P(q) for q in poly_closed]
    if pts[0] != pts[-1]:
        pts = pts + [pts[0]]
    A, B = P(a), P(b)
    r = (B[0] - A[0], B[1] - A[1])
    rr = dot(r, r)
    res = []
    for i in range(len(pts) - 1):
        kind, pt = seg_intersection(A, B, pts[i], pts[i + 1])
        if kind in ("point", "touch"):
            t = dot((pt[0] - A[0], pt[1] - A[1]), r) / rr if rr != 0 else Fr(0)
            res.append((t, pt, kind))
        elif kind == "overlap":
            res.append((Fr(-1), None, "overlap"))
    res.sort(key=lambda x: x[0])
    return res
