from .common import need_classes

LEVEL = "exploration"
RULE = (
    "seeded analytic psi arrays (sizes 17..65 (+129 thorough), aspect != 1, four topologies, both signs), both "
    "interpolation methods: node reproduction, every exposed derivative function against Richardson finite "
    "differences of the function it differentiates at 300 random interior points, div B, fpolprime for both "
    "orderings of psi1D, the three argument forms, agreement with the analytic family; distinct = equilibria built"
)
ASSUMPTIONS = ["interior = 10% margin from the box (the DCT's implicit even extension is inaccurate near the edge)"]


def plan(tier, seed):
    ntr = 8 if tier == "quick" else 60
    shards = 4 if tier == "quick" else 12
    sizes = [17, 25, 33, 49] if tier == "quick" else [17, 25, 33, 49, 65, 97, 129]
    jobs = [{"name": "c18-unit-%d" % k, "module": "vmon.jobs.c18_unit", "args": {"seed": 1000 * seed + k, "trials": max(1, ntr // shards), "sizes": sizes}, "timeout": 3000} for k in range(shards)]
    return {"cases": [], "jobs": jobs, "monitors": []}


def required(tier, classes, records):
    pats = [("spline increasing", r"spline\|psi1D increasing"), ("spline decreasing", r"spline\|psi1D decreasing"), ("dct increasing", r"dct\|psi1D increasing"), ("dct decreasing", r"dct\|psi1D decreasing"), ("both", "^both$"), ("a domain with max(Z) > max(R)", r"max\(Z\)>max\(R\)")]
    return need_classes(classes, pats)
