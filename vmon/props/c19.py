from .common import need_classes

LEVEL = "exploration"
RULE = (
    "seeded Gaussian-sum flux functions (2-3 blobs, random sub-grid shifts, widths, amplitudes, both signs, input "
    "resolutions 33..129): find_critical and TokamakEquilibrium's selections compared with the critical points of "
    "the analytic function (dense multi-start Newton on the analytic gradient, Hessian classification); "
    "psinorm_sol probed just below/above the second X-point; distinct = flux functions"
)
ASSUMPTIONS = ["X-points not joined to the primary O-point by a monotone psi line are out of scope (the code drops them by design)"]


def plan(tier, seed):
    ntr = 40 if tier == "quick" else 400
    shards = 8 if tier == "quick" else 16
    jobs = [{"name": "c19-unit-%d" % k, "module": "vmon.jobs.c19_unit", "args": {"seed": 1000 * seed + k, "trials": max(1, ntr // shards)}, "timeout": 3000} for k in range(shards)]
    return {"cases": [], "jobs": jobs, "monitors": []}


def required(tier, classes, records):
    pats = [("single null", r"find_critical\|[lu]sn"), ("double null", r"find_critical\|(cdn|ldn|udn)"), ("both signs", r"s-"), ("decision single", r"decision\|single"), ("decision double", r"decision\|double"), ("X-point diagonal from the O-point", r"pair\(diagonal\)"), ("single/double decision with the SOL edge given as psi_sol", r"decision\|(single|double)\|SOL edge given as psi_sol"), ("a second O-point inboard of the axis, met first by the scan", r"inboard dip")]
    return need_classes(classes, pats)
