from .. import cases
from .common import need_classes

LEVEL = "exploration"
RULE = (
    "differential: (a) the same spec built twice in one process and in two processes, (b) the caller's arrays "
    "compared with copies and a second run with read-only arrays for every profile/sign option, (c) a build after "
    "an unrelated build vs the build alone, (d) hypnotoad-geqdsk -> hypnotoad-recreate-inputs -> hypnotoad-geqdsk; "
    "all numeric variables compared bitwise; distinct = experiments"
)
ASSUMPTIONS = ["grid_id, version/provenance strings and module_versions may differ"]


def plan(tier, seed):
    jobs = []
    base = cases.tok("lsn", s=1, fs=1, tag="c14-lsn")
    other = cases.tok("udn", s=-1, fs=-1, guards=0, tag="c14-udn")
    specs = [base] + ([cases.tok("cdn", s=-1, fs=1, orth=False, tag="c14-cdn-nonorth"), cases.tok("usn", s=1, fs=-1, interp="dct", tag="c14-usn-dct")] if tier == "thorough" else [])
    for s in specs:
        jobs.append({"name": "c14-twice-" + s["tag"], "module": "vmon.jobs.c14_unit", "args": {"mode": "twice", "spec": s}, "timeout": 1200})
    # the same twice with worker processes (completion order differs from run to run)
    par = dict(cases.tok("cdn", s=-1, fs=1, orth=False, tag="c14-cdn-nonorth-np3"), np=3)
    jobs.append({"name": "c14-twice-" + par["tag"], "module": "vmon.jobs.c14_unit", "args": {"mode": "twice", "spec": par}, "timeout": 1500})
    jobs.append({"name": "c14-after-other", "module": "vmon.jobs.c14_unit", "args": {"mode": "after_other", "spec": base, "other": other}, "timeout": 1200})
    optsets = [{}, {"reverse_current": True}, {"psi_divide_twopi": True}, {"reverse_Bt": True}, {"reverse_current": True, "psi_divide_twopi": True, "reverse_Bt": True}]
    for k, o in enumerate(optsets):
        s = cases.tok("lsn", s=1, fs=1, tag="c14-inputs-%d" % k, **o)
        jobs.append({"name": "c14-inputs-%d" % k, "module": "vmon.jobs.c14_unit", "args": {"mode": "inputs", "spec": s}, "timeout": 600})
    cli_specs = [cases.tok("lsn", s=1, fs=1, via="geqdsk", tag="c14-cli-lsn", reverse_Bt=True, psi_divide_twopi=False, psi_core=None, nx_pf="nx_core" if False else 3)]
    if tier == "thorough":
        cli_specs.append(cases.tok("cdn", s=-1, fs=1, via="geqdsk", tag="c14-cli-cdn", reverse_current=True, orth=False))
    for s in cli_specs:
        jobs.append({"name": "c14-cli-" + s["tag"], "module": "vmon.jobs.c14_unit", "args": {"mode": "cli_loop", "spec": s}, "timeout": 1800})
    # two processes: the same spec as two distinct cached cases (a nonce makes the keys differ)
    a_ = dict(base, tag="c14-proc-a", nonce=1)
    b_ = dict(base, tag="c14-proc-b", nonce=2)
    jobs.append({"name": "c14-two-processes", "module": "vmon.jobs.pair_compare", "args": {"mode": "identical", "a": a_, "b": b_, "cls": "same spec in two processes"}, "timeout": 600})
    # the options embedded after an interactive regrid (redistributePoints) are those in force
    h_ = cases.tok("cdn", s=1, fs=1, orth=False, tag="c14-regrid-then-write")
    h_["history"] = [{"nonorthogonal_xpoint_poloidal_spacing_length": 0.08, "nonorthogonal_target_all_poloidal_spacing_length": 0.2}]
    return {"cases": [a_, b_, h_], "jobs": jobs, "monitors": ["C14"]}


def required(tier, classes, records):
    pats = [("twice in one process", "twice in one process"), ("two processes", "two processes"), ("after unrelated build", "after an unrelated"), ("input arrays with reverse_current", "reverse_current"), ("input arrays with psi_divide_twopi", "psi_divide_twopi"), ("input arrays with reverse_Bt", "reverse_Bt"), ("cli loop", "cli loop"), ("embedded options after a regrid", r"embedded options after")]
    return need_classes(classes, pats)
