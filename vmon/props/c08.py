from .common import pytest_contracts_job, TOPO_REQUIRED, grid_plan, need_classes

LEVEL = "exploration"
RULE = (
    "full grids of every topology with random per-region sizes and guard counts, incl. strongly unequal legs; "
    "BOUT++'s y/x neighbour map built from the file's topology integers is compared with the corner arrays of "
    "every cell; distinct = distinct case specs with >0 neighbour pairs checked"
)
ASSUMPTIONS = ["BOUT++ index semantics as implemented in vmon/boutindex.py from the BOUT++ manual (incl. BoutMesh::load's silent resets)"]


def plan(tier, seed):
    p_ = _plan(tier, seed)
    if tier == "thorough":
        p_.setdefault("jobs", []).append(pytest_contracts_job())
    return p_


def _plan(tier, seed):
    return grid_plan(tier, seed, "C08")


def required(tier, classes, records):
    pats = list(TOPO_REQUIRED) + [("circular core", r"^circ\|"), ("strongly unequal legs", r"longleg"), ("double null with four different leg sizes", r"(cdn|ldn|udn).*4 different legs")]
    if tier == "thorough":
        pats.append(("isolated X-point (TORPEX)", r"^torpex"))
    return need_classes(classes, pats)
