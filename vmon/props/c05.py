from .common import TOPO_REQUIRED, grid_plan, need_classes

LEVEL = "exploration"
RULE = (
    "full grids of every topology; for every contour of every region the arc length between consecutive grid "
    "points is recomputed by the oracle (midpoint insertion + projection onto the flux surface + Richardson) "
    "and compared with hy*dy, poloidal_distance and total_poloidal_distance; distinct = distinct case specs"
)
ASSUMPTIONS = ["eq.psi is the reference flux function", "segment end points are the region's own contour points (file-level face positions are the upper neighbour's copies)"]


def plan(tier, seed):
    return grid_plan(tier, seed, "C05")


def required(tier, classes, records):
    pats = list(TOPO_REQUIRED) + [("circular core", r"^circ\|")]
    return need_classes(classes, pats)
