from .common import pytest_contracts_job, TOPO_REQUIRED, grid_plan, need_classes

LEVEL = "exploration"
RULE = (
    "full grids of every topology; for every contour of every region the arc length between consecutive grid "
    "points is recomputed by the oracle (midpoint insertion + projection onto the flux surface + Richardson) "
    "and compared with hy*dy, poloidal_distance and total_poloidal_distance; distinct = distinct case specs"
)
ASSUMPTIONS = ["eq.psi is the reference flux function", "segment end points are the region's own contour points (file-level face positions are the upper neighbour's copies)"]


def plan(tier, seed):
    p_ = _plan(tier, seed)
    if tier == "thorough":
        p_.setdefault("jobs", []).append(pytest_contracts_job())
    return p_


def _plan(tier, seed):
    from .. import cases

    p = grid_plan(tier, seed, "C05")
    ladder = []
    for nf in ((60, 100, 200) if tier == "quick" else (60, 100, 200, 400)):
        ladder.append(cases.tok("lsn", s=1, fs=1, tag="c05-nfine-%d" % nf, finecontour_Nfine=nf))
    p["cases"] = p["cases"] + ladder
    p["jobs"] = [{"name": "c05-nfine-ladder", "module": "vmon.jobs.ladder", "args": {"mode": "nfine", "cases": ladder, "cls": "Nfine ladder"}, "timeout": 1200}]
    if tier == "thorough":
        l2 = [cases.tok("cdn", s=-1, fs=1, orth=False, tag="c05-nfine-cdn-%d" % nf, finecontour_Nfine=nf) for nf in (50, 100, 200, 400)]
        p["cases"] += l2
        p["jobs"].append({"name": "c05-nfine-ladder-cdn", "module": "vmon.jobs.ladder", "args": {"mode": "nfine", "cases": l2, "cls": "Nfine ladder"}, "timeout": 1800})
    return p


def required(tier, classes, records):
    pats = list(TOPO_REQUIRED) + [("circular core", r"^circ\|"), ("finecontour_Nfine ladder", r"Nfine ladder")]
    return need_classes(classes, pats)
