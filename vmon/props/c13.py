from .. import cases
from .common import need_classes

LEVEL = "fault_enumeration"
RULE = (
    "history + executable model: every ParallelMap call is recorded (task start/end/raise with unique ids and the "
    "caller's return/exception) and checked against list(map(f, args)); all n! completion orders for n<=4 are "
    "induced by delay assignment, random delays for larger n, a failing task at EVERY position for n<=6 (picklable "
    "and unpicklable exception), a second call after a failure; hang decided by state, not by the clock; plus full "
    "grids with number_of_processors>1 and injected delays compared value for value with the serial grid; "
    "distinct = distinct (n, completion order) histories + grid pairs"
)
ASSUMPTIONS = ["worker death by signal is out of scope", "completion orders are the ones the delays could induce; OS scheduling of queue feeder threads is not controlled"]


def plan(tier, seed):
    jobs = []
    if tier == "quick":
        jobs.append({"name": "c13-orders", "module": "vmon.jobs.c13_pmap", "args": {"mode": "orders", "seed": seed, "n_list": [2, 3], "np_list": [3, 4]}, "timeout": 1200})
        for k in range(2):
            jobs.append({"name": "c13-faults-%d" % k, "module": "vmon.jobs.c13_pmap", "args": {"mode": "faults", "seed": seed, "n_list": [1, 3, 4], "shard": k, "nshards": 2}, "timeout": 1200})
        jobs.append({"name": "c13-random", "module": "vmon.jobs.c13_pmap", "args": {"mode": "random", "seed": seed, "count": 12, "np_max": 6}, "timeout": 1200})
    else:
        for k in range(6):
            jobs.append({"name": "c13-orders-%d" % k, "module": "vmon.jobs.c13_pmap", "args": {"mode": "orders", "seed": seed, "n_list": [2, 3, 4], "np_list": [4, 6], "shard": k, "nshards": 6}, "timeout": 3000})
        for k in range(6):
            jobs.append({"name": "c13-faults-%d" % k, "module": "vmon.jobs.c13_pmap", "args": {"mode": "faults", "seed": seed, "n_list": [1, 2, 3, 4, 5, 6, 8], "shard": k, "nshards": 6}, "timeout": 3000})
        for k in range(4):
            jobs.append({"name": "c13-random-%d" % k, "module": "vmon.jobs.c13_pmap", "args": {"mode": "random", "seed": 10 * seed + k, "count": 40, "np_max": 8}, "timeout": 3000})
    # full grids: serial vs parallel with injected delays
    pairs = []
    base = [cases.tok("lsn", s=1, fs=1, tag="c13-lsn"), cases.tok("cdn", s=-1, fs=1, orth=False, tag="c13-cdn-nonorth")]
    if tier == "thorough":
        base += [cases.tok("udn", s=-1, fs=-1, guards=2, tag="c13-udn"), cases.tok("ldn", s=1, fs=1, orth=False, wall="slant2", tag="c13-ldn-nonorth")]
    cs = []
    for b in base:
        a_ = dict(b)
        a_["np"] = 1
        p_ = dict(b)
        p_["np"] = 3 if tier == "quick" else 4
        p_["inject_delays"] = {"seed": 7 + seed, "max_s": 0.02}
        p_["tag"] = b["tag"] + "-np"
        cs += [a_, p_]
        pairs.append((a_, p_))
    for a_, p_ in pairs:
        jobs.append({"name": "c13-pair-" + a_["tag"], "module": "vmon.jobs.pair_compare", "args": {"mode": "identical", "a": a_, "b": p_, "property": "C13", "cls": "grid np=1 vs np>1 with injected delays"}, "timeout": 600})
    return {"cases": cs, "jobs": jobs, "monitors": []}


def required(tier, classes, records):
    pats = [("parallel no-fault", r"^np=[2-9]"), ("fault ValueError", r"fault:ValueError"), ("fault Unpicklable", r"fault:Unpicklable"), ("serial control", r"serial control"), ("grid pair", r"^grid np=1")]
    return need_classes(classes, pats)
