from .common import TOPO_REQUIRED, grid_plan, need_classes

LEVEL = "exploration"
RULE = (
    "full grids, both values of `orthogonal`, both signs of Bp (psi increasing / decreasing) and of Bt; at every "
    "centre/xlow/ylow point the 3x3 product, the Jacobian identities and the closed forms (non-orthogonality angle "
    "measured by the oracle) are evaluated; displacement products and Simpson's rule decide the signs; "
    "distinct = distinct case specs with >0 points checked"
)
ASSUMPTIONS = ["grad(psi) from Richardson finite differences of eq.psi", "zShift in the same file is the reference for the sign of g_23"]


def plan(tier, seed):
    return grid_plan(tier, seed, "C02")


def required(tier, classes, records):
    pats = [p for p in TOPO_REQUIRED if "guard" not in p[0]]
    pats += [("non-orthogonal with psi increasing", r"nonorth\|.*\|s-"), ("non-orthogonal with psi decreasing", r"nonorth\|.*\|s\+"), ("Bt<0", r"f-")]
    return need_classes(classes, pats)
