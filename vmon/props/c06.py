from .common import TOPO_REQUIRED, grid_plan, need_classes

LEVEL = "exploration"
RULE = (
    "full grids with Bt != 0 of both signs; for every contour of every chain of y-connected regions the oracle "
    "integrates Bt/(R|Bp|) along the flux surface between consecutive grid points (own refinement + Richardson) and "
    "compares the cumulative integral with zShift at centre/xlow/ylow/corner points, ShiftAngle with the loop "
    "integral; distinct = distinct case specs"
)
ASSUMPTIONS = ["eq.psi reference; fpol from the analytic family (tokamak) or the equilibrium's own constant (circular/TORPEX)"]


def plan(tier, seed):
    return grid_plan(tier, seed, "C06")


def required(tier, classes, records):
    pats = [p for p in TOPO_REQUIRED if "guard" not in p[0]] + [("circular core", r"^circ\|"), ("Bt<0", r"f-"), ("Bt>0", r"f\+")]
    return need_classes(classes, pats)
