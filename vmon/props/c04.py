from .common import pytest_contracts_job, grid_plan, need_classes

LEVEL = "exploration"
RULE = (
    "orthogonal grids of every topology; for every poloidal index of every region the oracle integrates "
    "grad(psi)/|grad psi|^2 (DOP853, rtol 1e-11, finite-difference gradient) from the skeleton point across the "
    "region and measures the distance to every grid point of that index; distinct = distinct case specs"
)
ASSUMPTIONS = ["eq.psi reference flux function", "tolerance derived from the run's follow_perpendicular_atol/rtol and refine_atol"]


def plan(tier, seed):
    p_ = _plan(tier, seed)
    if tier == "thorough":
        p_.setdefault("jobs", []).append(pytest_contracts_job())
    return p_


def _plan(tier, seed):
    return grid_plan(tier, seed, "C04", filt=lambda s: s.get("opts", {}).get("orthogonal", True) and s.get("kind", "tok") in ("tok", "circ"))


def required(tier, classes, records):
    pats = [("lsn", r"^lsn"), ("usn", r"^usn"), ("cdn", r"^cdn"), ("ldn", r"^ldn"), ("udn (disconnected, split integration)", r"^udn|^ldn"), ("psi increasing", r"s-"), ("psi decreasing", r"s\+"), ("regions inside and outside a separatrix", r"inside\+outside")]
    return need_classes(classes, pats)
