from .common import pytest_contracts_job, TOPO_REQUIRED, grid_plan, need_classes

LEVEL = "exploration"
RULE = (
    "full grids generated through the real API from seeded analytic equilibria (topology x psi sign x "
    "interpolation x mode x guards x wall); a case is non-trivial when it generated and the monitor "
    "evaluated psi at >0 grid points; distinct = distinct case specs"
)
ASSUMPTIONS = [
    "the interpolated psi (eq.psi) is taken as the reference flux function (checked against the input in C18)",
    "tolerance = 1.5*refine_atol*max(1,|psi|), the acceptance rule of the code's own refinement",
]


def plan(tier, seed):
    p_ = _plan(tier, seed)
    if tier == "thorough":
        p_.setdefault("jobs", []).append(pytest_contracts_job())
    return p_


def _plan(tier, seed):
    return grid_plan(tier, seed, "C01")


def required(tier, classes, records):
    pats = list(TOPO_REQUIRED) + [("circular core", r"^circ\|"), ("non-orthogonal grid built by worker processes", r"nonorth.*\|np[2-9]"), ("orthogonal grid built by worker processes", r"\|orth\|.*\|np[2-9]")]
    if tier == "thorough":
        pats.append(("isolated X-point (TORPEX)", r"^torpex"))
    return need_classes(classes, pats)
