import random

from .. import cases
from ..rec import rec
from .common import grid_plan, need_classes

LEVEL = "exploration"
RULE = (
    "(a) the file validator (documented variables/shapes, finiteness with the documented NaNs, hy,dy>0, no folded "
    "cell) on every grid of the corpus; (b) hostile inputs through the API and the three command-line entry points "
    "(wrong types, out-of-range values, misspelled names, mesh options differing from equilibrium options, impossible "
    "psi ranges, nx/ny=1, walls not containing the X-point, tiny iteration limits / Nfine, corrupted geqdsk text): the "
    "outcome must be an exception or a file that passes the validator; inputs that must be rejected are checked to "
    "be rejected; (c) every shipped example / reference option file must generate; distinct = distinct inputs"
)
ASSUMPTIONS = ["documented variable list from doc/grid-file.rst", "a watchdog expiry is inconclusive for that input, not a violation"]


def hostile(tier, seed):
    rnd = random.Random(1234 + seed)
    out = []

    def api(tag, must_reject=False, **kw):
        s = cases.tok("lsn", s=1, fs=1, tag="hostile-" + tag)
        s["opts"].update(kw.pop("opts", {}))
        s.update(kw)
        s["hostile"] = True
        s["c12_class"] = "hostile|api"
        s["must_reject"] = must_reject
        s["timeout"] = 1500
        out.append(s)

    def cli(tag, must_reject=False, kind="cli_geqdsk", **kw):
        s = cases.tok("lsn", s=1, fs=1, tag="hostile-cli-" + tag)
        s["kind"] = kind
        s.update(kw)
        s["hostile"] = True
        s["c12_class"] = "hostile|" + kind
        s["must_reject"] = must_reject
        s["timeout"] = 1500
        out.append(s)

    # wrong types / out of range / invalid -> must be rejected
    bad = [
        ("nx_core", "three"), ("nx_core", 2.5), ("nx_core", 0), ("nx_sol", -1), ("ny_sol", 0), ("orthogonal", "yes"),
        ("y_boundary_guards", -1), ("xpoint_offset", 1.5), ("xpoint_offset", 0.0), ("finecontour_Nfine", 0),
        ("psi_interpolation_method", "cubic"), ("poloidal_spacing_method", "quadratic"), ("curvature_type", "bxkappa2"),
        ("number_of_processors", 0), ("refine_atol", -1.0), ("psinorm_core", "0.9"), ("geometry_rtol", 0.0),
        ("curvature_smoothing", "gaussian"), ("refine_methods", "secant"), ("follow_perpendicular_rtol", -1e-8),
    ]  # fmt: skip
    for k, (name, val) in enumerate(bad if tier == "thorough" else bad[:10]):
        api("invalid-%s-%d" % (name, k), must_reject=True, opts={name: val})
    # mesh options differing from equilibrium options -> must be rejected
    api("mesh-differs-nx", must_reject=True, mesh_opts_override={"nx_core": 4})
    api("mesh-differs-orth", must_reject=True, mesh_opts_override={"orthogonal": False})
    # a combination the documentation says is unsupported (the same non-orthogonal spec with the
    # default curvature_type is the corpus case cdn-nonorth and generates)
    nx = cases.tok("cdn", s=1, fs=1, orth=False, wall="slant", guards=0, tag="hostile-nonorth-xyderiv", curvature_type="curl(b/B) with x-y derivatives")
    nx.update(hostile=True, c12_class="hostile|api", must_reject=True, timeout=900)
    out.append(nx)
    # a slightly disconnected double null gridded as connected (nx_inter_sep = 0): the second X-point at
    # psi_N = 1.016 lies between the centre (1.011) and the outer face (1.022) of the first SOL cell, where
    # the documented refusal applies; with the second X-point much nearer either outcome is allowed (a written file must be valid)
    for k, (eps_, rej) in enumerate([(0.002, True), (0.0004, False)]):
        dn = cases.tok("ldn", s=1, fs=1, tag="hostile-connected-dn-%d" % k, eq_extra={"eps": eps_}, nx_inter_sep=0)
        dn.update(hostile=True, c12_class="hostile|api", must_reject=rej, timeout=900)
        out.append(dn)
    if tier == "thorough":
        api("mesh-differs-guards", must_reject=True, mesh_opts_override={"y_boundary_guards": 2})
        api("mesh-differs-interp", must_reject=True, mesh_opts_override={"psi_interpolation_method": "dct"})
    # unknown option names through the command-line entry points -> must be rejected
    cli("unknown-option", must_reject=True, yaml_update={"nx_cor": 3})
    cli("unknown-option-2", must_reject=True, yaml_update={"target_poloidal_spacing_length": 1})
    s = cases.circ()
    s.update(kind="cli_circ", tag="hostile-cli-circ-unknown", hostile=True, c12_class="hostile|cli_circ", must_reject=True, yaml_update={"nx_cor": 3})
    out.append(s)
    if tier == "thorough":
        import os

        from ..env import REPO

        with open(os.path.join(REPO, "examples", "torpex-xpoint", "torpex-coils.yaml")) as f:
            ty = f.read()
        ty = ty.replace("  nx_core: 8", "  nx_core: 8\n  nx_cor: 3")
        out.append({"kind": "cli_torpex", "yaml_text": ty, "tag": "hostile-cli-torpex-unknown", "hostile": True, "c12_class": "hostile|cli_torpex", "must_reject": True, "timeout": 1500})
    # impossible / extreme settings: either outcome, but never a malformed file
    soft = [
        dict(opts={"psinorm_core": 1.1}), dict(opts={"psinorm_sol": 0.9}), dict(opts={"psinorm_pf": 1.05}), dict(opts={"psinorm_core": 0.0}),
        dict(opts={"nx_core": 1, "nx_sol": 1}), dict(opts={"ny_inner_divertor": 1, "ny_outer_divertor": 1, "ny_sol": 2}),
        dict(wall={"kind": "box", "inset": 0.25}), dict(wall={"kind": "box", "inset": 0.29}), dict(opts={"follow_perpendicular_maxits": 5}),
        dict(opts={"finecontour_maxits": 1}), dict(opts={"finecontour_Nfine": 5}), dict(opts={"finecontour_Nfine": 12}), dict(opts={"xpoint_refine_maxits": 1}),
        dict(opts={"refine_maxits": 1}) if False else dict(opts={"refine_width": 1e-9}), dict(opts={"psi_spacing_separatrix_multiplier": 20.0}),
        dict(opts={"psi_spacing_separatrix_multiplier": 0.01}), dict(opts={"xpoint_poloidal_spacing_length": 5.0}), dict(opts={"target_all_poloidal_spacing_length": 1e-4}),
        dict(opts={"y_boundary_guards": 6}), dict(opts={"poloidal_spacing_method": "linear"}), dict(opts={"poloidal_spacing_method": "monotonic", "xpoint_poloidal_spacing_length": 2.0}),
        dict(opts={"psinorm_sol": 3.0}), dict(opts={"leg_refine_maxits": 1}), dict(opts={"follow_perpendicular_recover": True, "follow_perpendicular_maxits": 20}),
        dict(opts={"orthogonal": False, "nonorthogonal_xpoint_poloidal_spacing_length": 10.0}), dict(opts={"extrapolate_profiles": True}),
        dict(opts={"extrapolate_profiles": True, "psi_sol": 0.5}), dict(opts={"refine_timeout": 0.001}), dict(opts={"cap_Bp_ylow_xpoint": True}),
        dict(opts={"curvature_smoothing": "smoothnl"}), dict(opts={"shiftedmetric": False}), dict(opts={"start_at_upper_outer": True}),
    ]  # fmt: skip
    if tier == "quick":
        soft = soft[:13]  # up to and including xpoint_refine_maxits=1 (F33)
    for k, kw in enumerate(soft):
        api("soft-%d" % k, **kw)
    two_point = cases.tok("lsn", tag="hostile-two-point-wall")
    two_point.update(hostile=True, c12_class="hostile|api", must_reject=True, wall={"kind": "box"}, wall_points=[[1.2, -0.5], [1.8, 0.5]])
    out.append(two_point)
    # corrupted geqdsk text
    muts = [{"kind": "truncate", "frac": 0.5}, {"kind": "truncate", "frac": 0.97}, {"kind": "garbage", "line": 7}, {"kind": "dropline", "line": 12}, {"kind": "nan", "line": 20}, {"kind": "empty"}]
    if tier == "quick":
        muts = muts[:3]
    for k, m in enumerate(muts):
        cli("geqdsk-%s-%d" % (m["kind"], k), geqdsk_mutation=m)
    if tier == "thorough":
        for topo in ("cdn", "udn", "usn"):
            for k in range(6):
                o = {}
                for _ in range(3):
                    name, val = rnd.choice([("nx_core", rnd.choice([1, 2, 9])), ("ny_sol", rnd.choice([2, 4, 14])), ("y_boundary_guards", rnd.choice([0, 3, 5])), ("psinorm_sol", rnd.choice([1.01, 1.5, 2.5])), ("psinorm_core", rnd.choice([0.2, 0.99])), ("finecontour_Nfine", rnd.choice([8, 30, 400])), ("psi_spacing_separatrix_multiplier", rnd.choice([0.05, 3.0, None])), ("xpoint_poloidal_spacing_length", rnd.choice([0.005, 0.5])), ("orthogonal", rnd.choice([True, False])), ("nx_sol_inner", rnd.choice([2, 5])), ("nx_sol_outer", rnd.choice([2, 5])), ("poloidal_spacing_delta_psi", rnd.choice([1e-7, 1e-2])), ("wall_point_exclude_radius", rnd.choice([1e-6, 5e-2])), ("sfunc_checktol", rnd.choice([0.0, 1e-3])), ("leg_trace_atol", rnd.choice([1e-14, 1e-3])), ("finecontour_extend_prefactor", rnd.choice([0.5, 4.0])), ("nonorthogonal_xpoint_poloidal_spacing_range", rnd.choice([0.01, 2.0]))])
                    o[name] = val
                s = cases.tok(topo, s=rnd.choice([1, -1]), fs=1, tag="hostile-rnd-%s-%d" % (topo, k))
                s["opts"].update(o)
                s.update(hostile=True, c12_class="hostile|api", must_reject=False, timeout=900)
                out.append(s)
    return out


def shipped(tier):
    out = []
    geos = ["lsn", "usn", "cdn", "udn", "ldn", "udn2"] if tier == "thorough" else ["lsn", "cdn", "ldn"]
    for g in geos:
        out.append({"kind": "example", "geometry": g, "tag": "shipped-example-" + g, "c12_class": "shipped|tokamak_example", "must_generate": True, "timeout": 1500})
    for name, topo in (("geqdsk_cdn.yaml", "cdn"), ("geqdsk_ldn.yaml", "cdn")):
        # reference settings for a machine-sized equilibrium (spacing lengths of order 1 m): run them on
        # the analytic double null scaled to 4x (R = 4..8 m)
        s = cases.tok(topo, s=1, fs=1, tag="shipped-" + name, eq_extra={"scale": 4.0}, wall={"kind": "box", "scale": 4.0}, shift=(0.003, 0.0))
        s.update(kind="cli_geqdsk", yaml_file=name, c12_class="shipped|" + name, must_generate=True, timeout=1500)
        s["opts"] = {}
        out.append(s)
    if tier == "thorough":
        for name in ("torpex-coils", "torpex-coils-nonorth"):
            s = cases.torpex(name)
            s.update(c12_class="shipped|" + name, must_generate=True)
            out.append(s)
        for sub, files in (("connected_doublenull_orthogonal", ["test_orthogonal.yml", "test_orthogonal_all-options.yml", "test_orthogonal_np2.yml"]), ("connected_doublenull_nonorthogonal", ["test_nonorthogonal.yml", "test_nonorthogonal_all-options.yml", "test_nonorthogonal_np2.yml"])):
            for f in files:
                s = cases.tok("cdn", s=1, fs=1, tag="shipped-" + f)
                s.update(kind="cli_geqdsk", yaml_file="integrated_tests/%s/%s" % (sub, f), c12_class="shipped|integrated_tests option file (on a generated eqdsk)", must_generate=False, options_must_be_accepted=True, timeout=2400)
                s["opts"] = {}
                out.append(s)
    return out


def plan(tier, seed):
    p = grid_plan(tier, seed, "C12")
    p["cases"] = p["cases"] + hostile(tier, seed) + shipped(tier)
    return p


def case_records(res):
    """Records derived from the outcome of a case (not from a monitor)."""
    spec, gen = res["spec"], res.get("gen")
    out = []
    if gen is None:
        return out
    cls = spec.get("c12_class")
    if cls is None:
        return out
    ok = gen["outcome"] == "ok"
    what = "%s %s" % (spec.get("tag"), ("-> %s at %s: %s" % (gen.get("exc_type"), gen.get("stage"), (gen.get("exc_msg") or "")[:160])) if not ok else "-> grid written")
    if spec.get("must_reject"):
        out.append(rec("input that must be rejected is rejected with an exception", cls, 1, 1.0 if ok else 0.0, 0, sig=what if ok else None, where={"case": spec.get("tag"), "outcome": gen["outcome"], "exception": gen.get("exc_type")}))
    elif spec.get("must_generate"):
        out.append(rec("shipped configuration generates", cls, 1, 0.0 if ok else 1.0, 0, sig=what if not ok else None, where={"case": spec.get("tag")}))
    elif spec.get("options_must_be_accepted"):
        rejected = (not ok) and ("not used" in (gen.get("exc_msg") or "") or gen.get("stage") in ("start",))
        out.append(rec("shipped option file: options accepted", cls, 1, 1.0 if rejected else 0.0, 0, sig=what if rejected else None))
    else:
        out.append(rec("hostile input: explicit exception or a written grid", cls, 1, 0.0, 0, where={"case": spec.get("tag"), "outcome": gen["outcome"], "exception": gen.get("exc_type")}))
    if gen.get("file_left_behind"):
        out.append(rec("no partial grid file left behind by a failing writeGridfile", cls, 1, 1.0, 0, sig=what))
    return out


def required(tier, classes, records):
    pats = [("grid files of the corpus", r"^(lsn|usn|cdn|ldn|udn)\|"), ("hostile via API", r"hostile\|api"), ("hostile via hypnotoad-geqdsk", r"hostile\|cli_geqdsk"), ("hostile via hypnotoad-circular", r"hostile\|cli_circ"), ("shipped tokamak_example", r"shipped\|tokamak_example"), ("shipped geqdsk yaml", r"shipped\|geqdsk_")]
    return need_classes(classes, pats)
