from .common import grid_plan, need_classes

LEVEL = "exploration"
RULE = "file validator on every written grid + hostile inputs + shipped configurations (see DESIGN.md C12)"
ASSUMPTIONS = ["documented variable list taken from doc/grid-file.rst"]


def plan(tier, seed):
    return grid_plan(tier, seed, "C12")


def required(tier, classes, records):
    return []
