from .common import need_classes

LEVEL = "exploration"
RULE = (
    "exhaustive: every ordered pair of points of an NxN lattice as a segment against five closed polylines in four "
    "metamorphic variants (reversed, transposed, translated+scaled), decided in exact rational arithmetic; plus "
    "seeded random real coordinates for find_intersections/wallIntersection, polygons.area/clockwise/intersect "
    "(closed and open forms) and closest_approach; collinear-overlapping (lattice) and near-touching (random, "
    "1e-12) configurations are counted and excluded; distinct = non-degenerate configurations"
)
ASSUMPTIONS = ["fractions.Fraction of the exact double values is the reference", "polygons.intersect: strict inequalities and an absolute determinant cut 1e-6: configurations with |det|<1e-5 or touching are excluded"]


def plan(tier, seed):
    jobs = []
    N = 5 if tier == "quick" else 7
    nsh = 8 if tier == "quick" else 16
    for k in range(nsh):
        jobs.append({"name": "c20-lattice-%d" % k, "module": "vmon.jobs.c20_unit", "args": {"mode": "lattice", "N": N, "shard": k, "nshards": nsh}, "timeout": 3000})
    nr = 4 if tier == "quick" else 16
    ntr = 300 if tier == "quick" else 4000
    for k in range(nr):
        jobs.append({"name": "c20-random-%d" % k, "module": "vmon.jobs.c20_unit", "args": {"mode": "random", "seed": 100 * seed + k, "trials": ntr}, "timeout": 3000})
    return {"cases": [], "jobs": jobs, "monitors": []}


def required(tier, classes, records):
    pats = [("lattice dR>dZ", r"lattice\|as-is\|dR>dZ"), ("lattice dR<=dZ", r"lattice\|as-is\|dR<=dZ"), ("transposed", r"transposed"), ("reversed", r"reversed"), ("random", r"^random\|dR"), ("area", r"random\|area"), ("intersect closed", r"intersect-closed"), ("intersect open", r"intersect-open1"), ("closest approach", r"closest")]
    return need_classes(classes, pats)
