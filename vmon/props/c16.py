import copy

from .. import cases
from .common import need_classes

LEVEL = "exploration"
RULE = (
    "pairs of full grids: an equilibrium and its mirror image (wall mirrored, lower/upper options exchanged, unequal "
    "per-leg sizes, slanted wall) compared region by region with y reversed; an up-down symmetric double null with "
    "itself; psi / fpol sign reversal and 2*pi scaling given directly and through the options compared field by "
    "field (one global sign / power of 2*pi per field); distinct = grid pairs"
)
ASSUMPTIONS = ["in-domain cells and boundary guard cells are reported separately"]


def plan(tier, seed):
    cs = []
    jobs = []

    def pair(a, b, mode, cls, **kw):
        cs.extend([a, b])
        args = {"mode": mode, "a": a, "b": b, "cls": cls}
        args.update(kw)
        jobs.append({"name": "c16-%s-%s" % (a["tag"], b["tag"]), "module": "vmon.jobs.pair_compare", "args": args, "timeout": 900})

    # every per-leg / per-null option gets its own value, so that the upper-null branches cannot get
    # away with reading a lower-null setting (and vice versa)
    a = cases.tok("lsn", s=1, fs=1, wall="slant", guards=1, tag="c16-lsn", ny_inner_divertor=3, ny_outer_divertor=5, ny_sol=6, xpoint_poloidal_spacing_length=0.06, psinorm_pf_lower=0.9, target_inner_lower_poloidal_spacing_length=0.25, target_outer_lower_poloidal_spacing_length=0.35)
    a["opts"]["psinorm_pf"] = 0.85
    pair(a, cases.mirror_of(a), "mirror", "mirror lsn<->usn")
    b = cases.tok("ldn", s=-1, fs=1, wall="slant2", guards=1, tag="c16-ldn", ny_inner_lower_divertor=3, ny_outer_lower_divertor=4, ny_inner_upper_divertor=5, ny_outer_upper_divertor=3, ny_sol=6, psinorm_pf_lower=0.9, psinorm_pf_upper=0.87, target_inner_lower_poloidal_spacing_length=0.25, target_outer_lower_poloidal_spacing_length=0.35, target_inner_upper_poloidal_spacing_length=0.28, target_outer_upper_poloidal_spacing_length=0.32)
    pair(b, cases.mirror_of(b), "mirror", "mirror ldn<->udn")
    c = cases.tok("cdn", s=1, fs=1, wall="box", shift=(0.003, 0.0), tag="c16-cdn-sym")
    pair(c, copy.deepcopy(c), "mirror", "symmetric cdn with itself", self_mirror=True)
    if tier == "thorough":
        d = cases.tok("usn", s=-1, fs=-1, interp="dct", wall={"kind": "poly", "n": 14, "phase": 0.3}, guards=0, tag="c16-usn-dct", ny_inner_divertor=5, ny_outer_divertor=3)
        pair(d, cases.mirror_of(d), "mirror", "mirror usn<->lsn (dct)")
        e = cases.tok("udn", s=1, fs=-1, orth=False, wall="slant", tag="c16-udn-nonorth", nonorthogonal_target_inner_lower_poloidal_spacing_length=0.25, nonorthogonal_target_outer_lower_poloidal_spacing_length=0.35, nonorthogonal_target_inner_upper_poloidal_spacing_length=0.28, nonorthogonal_target_outer_upper_poloidal_spacing_length=0.32, nonorthogonal_target_inner_lower_poloidal_spacing_range=0.25, nonorthogonal_target_outer_upper_poloidal_spacing_range=0.35)
        pair(e, cases.mirror_of(e), "mirror", "mirror udn<->ldn (non-orthogonal)", pos_tol=1e-7, rel_tol=1e-5)
    # reversal pairs
    base = cases.tok("lsn", s=1, fs=1, tag="c16-base")
    neg = cases.tok("lsn", s=-1, fs=1, tag="c16-psi-negated")
    opt = cases.tok("lsn", s=1, fs=1, tag="c16-reverse_current", reverse_current=True)
    pair(base, neg, "scaled", "psi negated directly vs base", pos_tol=1e-12)
    # the same for a disconnected double null with unequal radial segment widths (the separatrix
    # spacing is chosen among five segment averages, whose signs all flip with psi)
    bpos = copy.deepcopy(b)
    bpos["eq"]["s"] = -b["eq"]["s"]
    bpos["tag"] = "c16-ldn-psi-negated"
    pair(b, bpos, "scaled", "psi negated directly vs base (double null)", pos_tol=1e-12)
    pair(neg, opt, "identical", "reverse_current option = psi negated directly", ignore=["hypnotoad_inputs", "hypnotoad_inputs_yaml"])
    fneg = cases.tok("lsn", s=1, fs=-1, tag="c16-fpol-negated")
    fopt = cases.tok("lsn", s=1, fs=1, tag="c16-reverse_Bt", reverse_Bt=True)
    pair(base, fneg, "scaled", "fpol negated directly vs base", pos_tol=0.0)
    pair(fneg, fopt, "identical", "reverse_Bt option = fpol negated directly")
    import math

    sc = cases.tok("lsn", s=1, fs=1, tag="c16-psi-scaled", eq_extra={"pscale": 1.0 / (2 * math.pi)})
    sopt = cases.tok("lsn", s=1, fs=1, tag="c16-psi_divide_twopi", psi_divide_twopi=True)
    pair(base, sopt, "scaled", "psi_divide_twopi vs base", pos_tol=1e-9, rel_tol=1e-8, len_rel_tol=1e-3, fields=["psixy", "dx", "Brxy", "Bzxy", "Bpxy", "Btxy", "J", "g11", "g_11", "psi_axis", "psi_bdry", "Bt_axis"])
    pair(sc, sopt, "close", "psi_divide_twopi option = psi scaled directly", pos_tol=1e-9, rel_tol=1e-8)
    # de-duplicate
    import json

    seen = set()
    out = []
    for c_ in cs:
        k = json.dumps(c_, sort_keys=True)
        if k not in seen:
            seen.add(k)
            out.append(c_)
    return {"cases": out, "jobs": jobs, "monitors": []}


def required(tier, classes, records):
    pats = [("mirror single null", "mirror lsn"), ("mirror disconnected double null", "mirror ldn"), ("symmetric cdn", "symmetric cdn"), ("psi negated", "psi negated"), ("reverse_current", "reverse_current"), ("reverse_Bt", "reverse_Bt"), ("psi_divide_twopi", "psi_divide_twopi"), ("psi negated, double null", r"psi negated directly vs base \(double null\)")]
    return need_classes(classes, pats)
