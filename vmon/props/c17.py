from .common import need_classes

LEVEL = "exploration"
RULE = (
    "seeded random data sets (nx, ny in 1..130 plus sizes >= 1000, values 0 and +-m*10^e with e in -99..99, five "
    "header variants, optional profiles present/absent, 0..39 boundary and limiter points): written with the real "
    "writer, read back with the real reader, parsed by an independent fixed-width parser, and re-rendered as "
    "separator-free Fortran text for the real reader; read_geqdsk checked on analytic equilibria with nR != nZ; "
    "distinct = data sets that round-tripped"
)
ASSUMPTIONS = ["10 significant digits = relative error <= 5.01e-10", "three-digit exponents are outside the format"]


def plan(tier, seed):
    ntr = 60 if tier == "quick" else 1500
    shards = 4 if tier == "quick" else 12
    jobs = []
    for k in range(shards):
        args = {"seed": 1000 * seed + k, "trials": ntr // shards, "mapping_cases": 1 if tier == "quick" else 4}
        if k == 0:
            args["big_sizes"] = [[1000, 3], [7, 1001]] if tier == "quick" else [[1000, 3], [7, 1001], [1025, 2], [999, 4]]
        jobs.append({"name": "c17-unit-%d" % k, "module": "vmon.jobs.c17_unit", "args": args, "timeout": 1800})
    return {"cases": [], "jobs": jobs, "monitors": []}


def required(tier, classes, records):
    pats = [("small sizes", r"nx,ny<=130"), ("large sizes", r"size>=1000"), ("all header variants", r"hdr4"), ("optional absent", r"noopt"), ("limiter", r"\+lim"), ("read_geqdsk spline", r"read_geqdsk\|spline"), ("read_geqdsk dct", r"read_geqdsk\|dct"), ("read_geqdsk of a box not centred on Z=0", r"read_geqdsk\|.*zmid!=0")]
    return need_classes(classes, pats)
