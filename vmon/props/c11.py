from .common import pytest_contracts_job, grid_plan, need_classes

LEVEL = "exploration"
RULE = (
    "full tokamak grids over wall shapes (box, slanted, polygons, clockwise/anticlockwise input, via geqdsk), "
    "topologies, guard counts and both modes; target points, inside/outside classification and penalty_mask are "
    "recomputed in exact rational arithmetic (winding number, exact crossing); plus a unit drive of the real "
    "_find_intersection on straight flux surfaces crossing a toothed wall several times; distinct = distinct case specs / scenarios"
)
ASSUMPTIONS = ["faces within 1e-5 m of the wall may be classified either way (a target point lies on the wall only to FineContour accuracy)"]


def plan(tier, seed):
    p_ = _plan(tier, seed)
    if tier == "thorough":
        p_.setdefault("jobs", []).append(pytest_contracts_job())
    return p_


def _plan(tier, seed):
    p = grid_plan(tier, seed, "C11", filt=lambda s: s.get("kind", "tok") == "tok")
    # the real _find_intersection on straight flux surfaces that cross a toothed wall 1..5 times
    ntr, shards = (60, 1) if tier == "quick" else (1200, 4)
    p.setdefault("jobs", [])
    p["jobs"] += [{"name": "c11-unit-%d" % k, "module": "vmon.jobs.c11_unit", "args": {"seed": 1000 * seed + k, "trials": ntr // shards}, "timeout": 900} for k in range(shards)]
    return p


def required(tier, classes, records):
    pats = [("box wall", r"wall:box"), ("slanted wall", r"wall:slant"), ("polygon wall", r"wall:poly"), ("clockwise input", r"-cw"), ("orthogonal", r"\|orth\|"), ("non-orthogonal", r"\|nonorth\|"), ("no guards", r"\|g0\|"), ("non-orthogonal without guard cells (contours must be extended to reach the wall)", r"\|nonorth\|.*\|g0\|"), ("guards", r"\|g[1-9]\|"), ("double null", r"^(cdn|ldn|udn)"), ("wall that is not star-shaped from the centre of the psi box, with cells behind it", r"\|hidden-faces$"), ("flux surface crossing the lower wall several times", r"^lower wall, 2 teeth$"), ("flux surface crossing the upper wall several times", r"^upper wall, [12] teeth$")]
    return need_classes(classes, pats)
