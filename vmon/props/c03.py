from .common import TOPO_REQUIRED, grid_plan, need_classes

LEVEL = "exploration"
RULE = (
    "full tokamak grids from analytic equilibria (arrays and geqdsk), all sign combinations of psi and fpol, "
    "profile options; every file value of Brxy/Bzxy/Bpxy/Btxy/Bxy/pressure compared with finite differences "
    "of the interpolant and the analytic profiles; distinct = distinct case specs with >0 values checked"
)
ASSUMPTIONS = ["eq.psi is the reference flux function", "profiles: the family's analytic fpol(psi_N), p(psi_N), constant outside the tabulated range"]


def plan(tier, seed):
    return grid_plan(tier, seed, "C03", filt=lambda s: s.get("kind", "tok") == "tok")


def required(tier, classes, records):
    pats = [p for p in TOPO_REQUIRED if "guard" not in p[0]] + [("fpol>0", r"f\+"), ("fpol<0", r"f-")]
    return need_classes(classes, pats)
