from .common import TOPO_REQUIRED, grid_plan, need_classes

LEVEL = "exploration"
RULE = (
    "full grids of every topology with fpol' != 0; curl(b/B) recomputed by Richardson central differences of the "
    "vector field built from finite differences of eq.psi and the analytic fpol, projected on grad x, grad y "
    "(built geometrically) and grad z; both curvature_type formulations; distinct = distinct case specs"
)
ASSUMPTIONS = ["eq.psi reference; analytic fpol(psi_N); grad(y) defined by grad(y).e_x=0, grad(y).e_y=1 with the measured e_x"]


def plan(tier, seed):
    return grid_plan(tier, seed, "C07", filt=lambda s: s.get("kind", "tok") in ("tok", "circ"))


def required(tier, classes, records):
    pats = [p for p in TOPO_REQUIRED if "guard" not in p[0]] + [("x-y derivative formulation, psi increasing outwards", r"\|s-.*xyderiv"), ("x-y derivative formulation, psi decreasing outwards", r"\|s\+.*xyderiv"), ("tilted non-orthogonal cells, psi increasing outwards", r"nonorth\|.*\|s-.*\|tilted"), ("tilted non-orthogonal cells, psi decreasing outwards", r"nonorth\|.*\|s\+.*\|tilted")]
    return need_classes(classes, pats)
