from .common import grid_plan, need_classes

LEVEL = "exploration"
RULE = (
    "unit drive: seeded random (length, N, N_norm, end-spacing parameters) for the sqrt, monotonic and linear "
    "constructors in every region kind, and the guarded entry point getSfuncFixedSpacing over methods x kinds x "
    "guards; post-conditions: end values, monotonicity on the used indices, requested end gradients in units of "
    "the normalised index, continuity of the guard-cell extrapolation; plus grid-level order/nesting monitors; "
    "distinct = parameter sets that produced a function"
)
ASSUMPTIONS = ["a constructor that raises is a refusal (counted, not a violation)", "bare sqrt constructors may return non-monotone functions; monotonicity is claimed after the code's own guard"]


def plan(tier, seed):
    ntr = 1200 if tier == "quick" else 20000
    shards = 2 if tier == "quick" else 12
    jobs = [{"name": "c10-unit-%d" % k, "module": "vmon.jobs.c10_unit", "args": {"seed": 1000 * seed + k, "trials": ntr // shards}, "timeout": 1800} for k in range(shards)]
    p = grid_plan(tier, seed, "C10")
    p["jobs"] = jobs
    return p


def required(tier, classes, records):
    pats = [(c, "^" + c.replace(".", r"\.") + "$") for c in ("monotonic", "sqrt:wall.X", "sqrt:X.wall", "sqrt:X.X", "sqrt:wall.wall", "linear")]
    pats += [("guarded sqrt", "guarded:sqrt"), ("guarded monotonic", "guarded:monotonic"), ("guarded linear", "guarded:linear"), ("guarded wall.wall", r"guarded:.*:wall\.wall"), ("guarded X.X", r"guarded:.*:X\.X")]
    return need_classes(classes, pats)
