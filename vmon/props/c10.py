from .common import pytest_contracts_job, grid_plan, need_classes

LEVEL = "exploration"
RULE = (
    "unit drive: seeded random (length, N, N_norm, end-spacing parameters) for the sqrt, monotonic and linear "
    "constructors in every region kind, and the guarded entry point getSfuncFixedSpacing over methods x kinds x "
    "guards; post-conditions: end values, monotonicity on the used indices, requested end gradients in units of "
    "the normalised index, continuity of the guard-cell extrapolation; plus grid-level order/nesting monitors; "
    "distinct = parameter sets that produced a function"
)
ASSUMPTIONS = ["a constructor that raises is a refusal (counted, not a violation)", "bare sqrt constructors may return non-monotone functions; monotonicity is claimed after the code's own guard"]


def plan(tier, seed):
    p_ = _plan(tier, seed)
    if tier == "thorough":
        p_.setdefault("jobs", []).append(pytest_contracts_job())
    return p_


def _plan(tier, seed):
    ntr = 1200 if tier == "quick" else 20000
    shards = 2 if tier == "quick" else 12
    jobs = [{"name": "c10-unit-%d" % k, "module": "vmon.jobs.c10_unit", "args": {"seed": 1000 * seed + k, "trials": ntr // shards}, "timeout": 1800} for k in range(shards)]
    from .. import cases

    p = grid_plan(tier, seed, "C10")
    pairs = [("lsn", dict(s=1, fs=1)), ("udn", dict(s=-1, fs=1))] if tier == "quick" else [("lsn", dict(s=1, fs=1)), ("udn", dict(s=-1, fs=1)), ("cdn", dict(s=1, fs=-1)), ("usn", dict(s=-1, fs=-1, interp="dct"))]
    for topo, kw in pairs:
        a_ = cases.tok(topo, tag="c10-ny-%s" % topo, guards=1, **kw)
        b_ = cases.tok(topo, tag="c10-2ny-%s" % topo, guards=2, **kw)
        for k in list(b_["opts"]):
            if k.startswith("ny_"):
                b_["opts"][k] = 2 * b_["opts"][k]
        p["cases"] += [a_, b_]
        jobs.append({"name": "c10-nest-" + topo, "module": "vmon.jobs.ladder", "args": {"mode": "nest_y", "cases": [a_, b_], "cls": "ny doubling"}, "timeout": 900})
        # the same with the number of guard cells kept: the normalisation count of the spacing functions
        # (N_norm_prefactor * total ny between the targets) must double exactly
        c_ = cases.tok(topo, tag="c10-ny-guards2-%s" % topo, guards=2, **kw)
        p["cases"] += [c_]
        jobs.append({"name": "c10-nest-sameguards-" + topo, "module": "vmon.jobs.ladder", "args": {"mode": "nest_y", "cases": [c_, b_], "cls": "ny doubling, guard cells kept"}, "timeout": 900})
    p["jobs"] = jobs
    return p


def required(tier, classes, records):
    pats = [(c, "^" + c.replace(".", r"\.") + "$") for c in ("monotonic", "sqrt:wall.X", "sqrt:X.wall", "sqrt:X.X", "sqrt:wall.wall", "linear")]
    pats += [("guarded sqrt", "guarded:sqrt"), ("guarded monotonic", "guarded:monotonic"), ("guarded linear", "guarded:linear"), ("guarded wall.wall", r"guarded:.*:wall\.wall"), ("guarded X.X", r"guarded:.*:X\.X"), ("ny doubling", r"^ny doubling$"), ("ny doubling with the guard cells kept", r"^ny doubling, guard cells kept$")]
    return need_classes(classes, pats)
