import copy

from .. import cases
from .common import need_classes

LEVEL = "exploration"
RULE = (
    "histories of 1..4 redistributePoints calls over a palette of nonorthogonal settings (including returning to an "
    "earlier setting and repeating one) on non-orthogonal meshes, followed by geometry(); compared with a mesh built "
    "from scratch with the final settings (positions 1e-7 m, derived fields 1e-6 relative); distinct = histories"
)
ASSUMPTIONS = ["tolerances bounded by refine_atol/|grad psi| and finecontour_atol"]

PALETTE = [
    {"nonorthogonal_xpoint_poloidal_spacing_length": 0.08},
    {"nonorthogonal_target_all_poloidal_spacing_length": 0.2},
    {"nonorthogonal_target_all_poloidal_spacing_range": 0.4},
    {"nonorthogonal_spacing_method": "poloidal_orthogonal_combined"},
    {},
    {"nonorthogonal_radial_range_power": 3.0},
    {"nonorthogonal_xpoint_poloidal_spacing_length": 0.03, "nonorthogonal_target_all_poloidal_spacing_length": 0.4},
]


def with_nonorth(spec, settings):
    s = copy.deepcopy(spec)
    s["opts"] = {k: v for k, v in s["opts"].items() if not k.startswith("nonorthogonal_")}
    s["opts"].update(settings)
    return s


def plan(tier, seed):
    bases = [cases.tok("cdn", s=1, fs=1, orth=False, tag="c15-cdn")]
    # an entry may be a tuple = union of palette entries; [5] and [1, (1, 5)] end with a call that
    # changes ONLY the radial power, [(1, 3)...] only the method
    hist_idx = [[5], [1, (1, 5)], [2, 4, 2]]
    if tier == "thorough":
        bases += [cases.tok("ldn", s=-1, fs=1, orth=False, tag="c15-ldn"), cases.tok("udn", s=1, fs=-1, orth=False, guards=2, tag="c15-udn"), cases.tok("lsn", s=-1, fs=1, orth=False, tag="c15-lsn", nonorthogonal_spacing_method="poloidal_orthogonal_combined")]
        hist_idx += [[3, 0, 3, 1], [0, 0], [5, 6, 3], [6, 4], [0, (0, 3)], [6, (6, 5), 6]]
    cs = []
    jobs = []
    for b in bases:
        for hi in hist_idx:
            hist = []
            for i in hi:
                if isinstance(i, tuple):
                    u = {}
                    for k in i:
                        u.update(PALETTE[k])
                    hist.append(u)
                else:
                    hist.append(PALETTE[i])
            h = copy.deepcopy(b)
            h["history"] = hist
            h["tag"] = b["tag"] + "-hist" + "_".join(str(i).replace(" ", "") for i in hi)
            f = with_nonorth(b, hist[-1])
            f["tag"] = b["tag"] + "-fresh" + str(hi[-1]).replace(" ", "")
            cs += [h, f]
            jobs.append({"name": "c15-" + h["tag"], "module": "vmon.jobs.pair_compare", "args": {"mode": "close", "a": h, "b": f, "pos_tol": 1e-7, "rel_tol": 1e-6, "cls": "history length %d vs fresh build" % len(hi)}, "timeout": 600})
    # de-duplicate fresh cases
    seen = set()
    out = []
    import json

    for c in cs:
        k = json.dumps(c, sort_keys=True)
        if k not in seen:
            seen.add(k)
            out.append(c)
    return {"cases": out, "jobs": jobs, "monitors": ["C15"]}


def required(tier, classes, records):
    pats = [("history of length 1", "history length 1"), ("history of length 2", "history length 2"), ("history of length 3", "history length 3"), ("stale cache probe", r"\|history")]
    return need_classes(classes, pats)
