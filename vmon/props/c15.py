import copy

from .. import cases
from .common import need_classes

LEVEL = "exploration"
RULE = (
    "histories of 1..4 redistributePoints calls over a palette of nonorthogonal settings (including returning to an "
    "earlier setting and repeating one) on non-orthogonal meshes, followed by geometry(); compared with a mesh built "
    "from scratch with the final settings (positions 1e-7 m, derived fields 1e-6 relative); distinct = histories"
)
ASSUMPTIONS = ["tolerances bounded by refine_atol/|grad psi| and finecontour_atol"]

PALETTE = [
    {"nonorthogonal_xpoint_poloidal_spacing_length": 0.08},
    {"nonorthogonal_target_all_poloidal_spacing_length": 0.2},
    {"nonorthogonal_target_all_poloidal_spacing_range": 0.4},
    {"nonorthogonal_spacing_method": "poloidal_orthogonal_combined"},
    {},
    {"nonorthogonal_radial_range_power": 3.0},
    {"nonorthogonal_xpoint_poloidal_spacing_length": 0.03, "nonorthogonal_target_all_poloidal_spacing_length": 0.4},
    {"nonorthogonal_spacing_method": "perp_orthogonal_combined"},
    {"nonorthogonal_spacing_method": "orthogonal"},
    {"nonorthogonal_target_inner_lower_poloidal_spacing_length": 0.15, "nonorthogonal_target_outer_upper_poloidal_spacing_range": 0.3, "nonorthogonal_xpoint_poloidal_spacing_range": 0.2},
]


def with_nonorth(spec, settings):
    s = copy.deepcopy(spec)
    s["opts"] = {k: v for k, v in s["opts"].items() if not k.startswith("nonorthogonal_")}
    s["opts"].update(settings)
    return s


def _entry(i):
    if isinstance(i, tuple):
        u = {}
        for k in i:
            u.update(PALETTE[k])
        return u
    return PALETTE[i]


SKELETON_LENGTHS = ("nonorthogonal_xpoint_poloidal_spacing_length", "nonorthogonal_target_all_poloidal_spacing_length")


def skeleton_key(settings):
    """What the separatrix skeleton of a freshly built non-orthogonal mesh depends on (F31): the
    spacing method and, for poloidal_orthogonal_combined only, the nonorthogonal_* spacing lengths
    (getSfuncFixedSpacing, method 'nonorthogonal')."""
    m = settings.get("nonorthogonal_spacing_method", "combined")
    if m == "poloidal_orthogonal_combined":
        return (m,) + tuple(settings.get(k) for k in SKELETON_LENGTHS)
    return (m,)


def plan(tier, seed):
    # an entry may be a tuple = union of palette entries; [5] and [1, (1, 5)] end with a call that
    # changes ONLY the radial power, [0, (0, 3)] only the method
    # [6, 4] ends with the empty settings (back to the defaults) after non-default ones
    H_quick = [[5], [1, (1, 5)], [2, 4, 2], [6, 4]]
    H_more = [[3, 0, 3, 1], [0, 0], [5, 6, 3], [1, 4], [0, (0, 3)], [6, (6, 5), 6], [3], [7], [8], [7, 4], [3, 7, 3], [9], [9, 4], [0, 9], [9, 2, 9]]
    # a mesh BUILT with poloidal_orthogonal_combined (single null: the default 'combined' method is
    # refused for this family), taken to other settings of the same method and back
    H_poc = [[(0, 3)], [(5, 3), (6, 3)], [(1, 3), (2, 3), 3], [4], [(6, 3), 3]]
    plans = [(cases.tok("cdn", s=1, fs=1, orth=False, tag="c15-cdn"), H_quick + (H_more if tier == "thorough" else [[0, (0, 3)]]))]
    if tier == "thorough":
        plans += [
            (cases.tok("ldn", s=-1, fs=1, orth=False, tag="c15-ldn"), H_quick + H_more[:6]),
            (cases.tok("udn", s=1, fs=-1, orth=False, guards=2, tag="c15-udn"), H_quick + H_more[:6]),
            (cases.tok("lsn", s=-1, fs=1, orth=False, tag="c15-lsn", nonorthogonal_spacing_method="poloidal_orthogonal_combined"), H_poc),
            (cases.tok("cdn", s=-1, fs=-1, orth=False, guards=0, wall="slant", tag="c15-cdnpoc", nonorthogonal_spacing_method="poloidal_orthogonal_combined"), [[4], [5, 3], [(0, 3), 6]]),
        ]
    cs = []
    jobs = []
    for b, hist_idx in plans:
        for hi in hist_idx:
            hist = [_entry(i) for i in hi]
            h = copy.deepcopy(b)
            h["history"] = hist
            h["tag"] = b["tag"] + "-hist" + "_".join(str(i).replace(" ", "") for i in hi)
            f = with_nonorth(b, hist[-1])
            f["tag"] = b["tag"] + "-fresh" + str(hi[-1]).replace(" ", "")
            cs += [h, f]
            cls = "history length %d vs fresh build" % len(hi)
            k0 = skeleton_key({k: v for k, v in b["opts"].items() if k.startswith("nonorthogonal_")})
            if skeleton_key(hist[-1]) != k0:
                # the mesh was BUILT under settings whose separatrix skeleton differs from the one a
                # fresh build with the final settings makes (redistributePoints never redoes it)
                cls += "|initial skeleton differs"
            jobs.append({"name": "c15-" + h["tag"], "module": "vmon.jobs.pair_compare", "args": {"mode": "close", "a": h, "b": f, "pos_tol": 1e-7, "rel_tol": 1e-6, "refusal_not_comparable": True, "cls": cls}, "timeout": 600})
    # de-duplicate fresh cases
    seen = set()
    out = []
    import json

    for c in cs:
        k = json.dumps(c, sort_keys=True)
        if k not in seen:
            seen.add(k)
            out.append(c)
    return {"cases": out, "jobs": jobs, "monitors": ["C15"]}


def required(tier, classes, records):
    pats = [("history of length 1", "history length 1 vs fresh build$"), ("history of length 2", "history length 2 vs fresh build$"), ("history of length 3", "history length 3 vs fresh build$"), ("stale cache probe", r"\|history")]
    return need_classes(classes, pats)
