"""Shared pieces of the per-property plans."""

from .. import cases

ALL_GRID_MONITORS = ["C01", "C02", "C03", "C04", "C05", "C06", "C07", "C08", "C09", "C11", "C12"]


def grid_plan(tier, seed, prop, filt=None, monitors=None):
    cs = [s for s in cases.corpus(tier, seed) if (filt is None or filt(s))]
    return {"cases": cs, "monitors": monitors or [prop]}


def need_classes(classes, patterns):
    """patterns: list of (description, regex). Returns the missing descriptions."""
    import re

    miss = []
    for desc, pat in patterns:
        if not any(re.search(pat, c) and v["evaluations"] > 0 for c, v in classes.items()):
            miss.append("no successful execution in class '%s'" % desc)
    return miss


TOPO_REQUIRED = [
    ("lower single null", r"^lsn\|"),
    ("upper single null", r"^usn\|"),
    ("connected double null", r"^cdn\|"),
    ("lower disconnected double null", r"^ldn\|"),
    ("upper disconnected double null", r"^udn\|"),
    ("orthogonal", r"\|orth\|"),
    ("non-orthogonal", r"\|nonorth\|"),
    ("spline interpolation", r"\|spline\|"),
    ("dct interpolation", r"\|dct\|"),
    ("psi increasing outwards", r"\|s-"),
    ("psi decreasing outwards", r"\|s\+"),
    ("no guard cells", r"\|g0$"),
    ("guard cells", r"\|g[1-9]$"),
]


def pytest_contracts_job():
    """(thorough tier) the pinned test-suite run with the online contracts installed"""
    return {"name": "pytest-with-contracts", "module": "vmon.jobs.pytest_contracts", "args": {}, "timeout": 3000}


def select_contract_records(prop):
    def select(rec_, monitor):
        return True

    return select
