from .common import pytest_contracts_job, TOPO_REQUIRED, grid_plan, need_classes

LEVEL = "exploration"
RULE = (
    "unit drive: seeded random (n, lower, upper, end gradients) over all five analytic branches of the radial "
    "spacing function and both sides of every branch switch, with post-conditions on the real function; plus the "
    "radial grid of every generated grid of the corpus; distinct = parameter sets that produced a function + case specs"
)
ASSUMPTIONS = ["end-gradient ratios 0.05..4 carry the full claim; ratios 4..20 only 'monotone or refused' (erf saturates in double precision)"]


def plan(tier, seed):
    p_ = _plan(tier, seed)
    if tier == "thorough":
        p_.setdefault("jobs", []).append(pytest_contracts_job())
    return p_


def _plan(tier, seed):
    p = grid_plan(tier, seed, "C09")
    ntr = 1500 if tier == "quick" else 20000
    shards = 2 if tier == "quick" else 12
    from .. import cases

    ladder_jobs = []
    for topo, kw in ([("lsn", dict(s=1, fs=1)), ("ldn", dict(s=-1, fs=1))] if tier == "quick" else [("lsn", dict(s=1, fs=1)), ("ldn", dict(s=-1, fs=1)), ("cdn", dict(s=1, fs=1)), ("usn", dict(s=-1, fs=-1))]):
        a_ = cases.tok(topo, tag="c09-nx-%s" % topo, **kw)
        b_ = cases.tok(topo, tag="c09-2nx-%s" % topo, **kw)
        for k in list(b_["opts"]):
            if k.startswith("nx_"):
                b_["opts"][k] = 2 * b_["opts"][k]
        p["cases"] += [a_, b_]
        ladder_jobs.append({"name": "c09-nest-" + topo, "module": "vmon.jobs.ladder", "args": {"mode": "nest_x", "cases": [a_, b_], "cls": "nx doubling"}, "timeout": 900})
    p["jobs"] = ladder_jobs + [{"name": "c09-unit-%d" % k, "module": "vmon.jobs.c09_unit", "args": {"seed": 1000 * seed + k, "trials": ntr // shards}, "timeout": 1800} for k in range(shards)]
    return p


def required(tier, classes, records):
    pats = [p for p in TOPO_REQUIRED if p[0] in ("lower single null", "upper single null", "connected double null", "lower disconnected double null", "upper disconnected double null")]
    pats += [(b, "^" + b.replace("(", r"\(").replace(")", r"\)") + "$") for b in ("linear", "lower-increasing", "lower-decreasing(erf)", "upper-increasing", "upper-decreasing(erf)", "both-increasing", "both-decreasing(sici)")]
    pats += [("branch switch lower", "switch-lower"), ("branch switch upper", "switch-upper"), ("branch switch both", "switch-both"), ("nx doubling of a full grid", "nx doubling")]
    return need_classes(classes, pats)
