from .common import TOPO_REQUIRED, grid_plan, need_classes

LEVEL = "exploration"
RULE = (
    "unit drive: seeded random (n, lower, upper, end gradients) over all five analytic branches of the radial "
    "spacing function and both sides of every branch switch, with post-conditions on the real function; plus the "
    "radial grid of every generated grid of the corpus; distinct = parameter sets that produced a function + case specs"
)
ASSUMPTIONS = ["end-gradient ratios 0.05..4 carry the full claim; ratios 4..20 only 'monotone or refused' (erf saturates in double precision)"]


def plan(tier, seed):
    p = grid_plan(tier, seed, "C09")
    ntr = 1500 if tier == "quick" else 20000
    shards = 2 if tier == "quick" else 12
    p["jobs"] = [{"name": "c09-unit-%d" % k, "module": "vmon.jobs.c09_unit", "args": {"seed": 1000 * seed + k, "trials": ntr // shards}, "timeout": 1800} for k in range(shards)]
    return p


def required(tier, classes, records):
    pats = [p for p in TOPO_REQUIRED if p[0] in ("lower single null", "upper single null", "connected double null", "lower disconnected double null", "upper disconnected double null")]
    pats += [(b, "^" + b.replace("(", r"\(").replace(")", r"\)") + "$") for b in ("linear", "lower-increasing", "lower-decreasing(erf)", "upper-increasing", "upper-decreasing(erf)", "both-increasing", "both-decreasing(sici)")]
    pats += [("branch switch lower", "switch-lower"), ("branch switch upper", "switch-upper"), ("branch switch both", "switch-both")]
    return need_classes(classes, pats)
