"""Runs the pinned test-suite with the online contracts installed (xdist workers each
write their own counter file) and reports contract evaluations / violations per property."""

import glob
import json
import os
import subprocess
import sys

from .. import env
from .common import load_job, write_out
from ..rec import rec


def main():
    d, job = load_job()
    out_base = os.path.join(d, "contracts")
    for p in glob.glob(out_base + ".*"):
        os.remove(p)
    e = env.child_env({"VERIF_CONTRACT_OUT": out_base})
    cmd = [env.PY, "-m", "pytest", "-q", "-p", "no:cacheprovider", "-p", "vmon.pytest_plugin", "--timeout=900", "-n", "8", os.path.join(env.REPO, "hypnotoad", "test_suite")]
    r = subprocess.run(cmd, cwd=env.REPO, env=e, stdout=subprocess.PIPE, stderr=subprocess.STDOUT, text=True)
    tail = r.stdout.strip().splitlines()[-1] if r.stdout.strip() else ""
    counters = {}
    violations = []
    for p in glob.glob(out_base + ".*"):
        with open(p) as f:
            s = json.load(f)
        for k, v in s["counters"].items():
            counters[k] = counters.get(k, 0) + v
        violations += s["violations"]
    records = []
    merr = []
    props = sorted({k.split(".")[0] for k in counters})
    for k, v in sorted(counters.items()):
        if k.endswith("#violations"):
            continue
        if k.endswith("#monitor_error"):
            merr.append("%s x%d" % (k, v))
            continue
        nv = counters.get(k + "#violations", 0)
        r_ = rec("pinned tests with contracts installed: " + k, "pytest", v, nv, 0, sig=str([x["detail"] for x in violations if x["contract"] == k][:2])[:300] if nv else None)
        r_["prop"] = k.split(".")[0]
        records.append(r_)
    inconclusive = []
    if r.returncode != 0:
        failed = [ln for ln in r.stdout.splitlines() if ln.startswith(("FAILED", "ERROR"))][:5]
        inconclusive.append("pinned test-suite did not pass with the contracts installed: %s %s" % (tail, failed))
    if merr:
        inconclusive.append("online contracts failed in their own code: " + ", ".join(merr))
    write_out(d, {"records": records, "executions": 1, "distinct_keys": ["pytest-with-contracts"], "samples": [{"pytest": tail, "contract_evaluations": {k: v for k, v in counters.items() if not k.endswith("#violations")}}], "inconclusive": inconclusive, "properties": props})


if __name__ == "__main__":
    main()
