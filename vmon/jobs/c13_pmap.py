"""C13 history checker driver: runs many ParallelMap scenarios (each in its own process)
and checks every recorded history against the sequential model list(map(f, args))."""

import itertools
import json
import subprocess

import numpy as np

from .. import env
from .common import Acc, load_job, write_out


def run_scenario(sc):
    try:
        r = subprocess.run([env.PY, "-m", "vmon.jobs.c13_scenario", json.dumps(sc)], stdout=subprocess.PIPE, stderr=subprocess.PIPE, text=True, timeout=150, env=env.child_env(), cwd=env.VERIF_ROOT, start_new_session=True)
    except subprocess.TimeoutExpired:
        return {"outcome": "watchdog"}
    for line in r.stdout.splitlines():
        if line.startswith("RESULT "):
            return json.loads(line[7:])
    return {"outcome": "crash", "stderr": r.stderr[-500:]}


def main():
    d, job = load_job()
    a = job["args"]
    rng = np.random.default_rng(int(a["seed"]))
    scs = []
    mode = a["mode"]
    if mode == "orders":
        # every completion order of n tasks, induced by the delay assignment
        for n in a["n_list"]:
            for npr in a["np_list"]:
                if npr < n:
                    continue  # all tasks must run concurrently for the delays to order them
                for perm in itertools.permutations(range(n)):
                    delays = [0.0] * n
                    for rank, tid in enumerate(perm):
                        delays[tid] = 0.05 + 0.12 * rank
                    scs.append({"np": npr, "n_tasks": n, "delays": delays, "expect_order": list(perm)})
    elif mode == "random":
        for k in range(int(a["count"])):
            npr = int(rng.integers(2, int(a.get("np_max", 8)) + 1))
            n = int(rng.choice([0, 1, 2, 3, 5, 8, 13, 40]))
            delays = [float(x) for x in rng.choice([0.0, 0.01, 0.03, 0.08], size=n)]
            scs.append({"np": npr, "n_tasks": n, "delays": delays})
        scs.append({"np": 1, "n_tasks": 5, "delays": [0.0] * 5})
    elif mode == "faults":
        for n in a["n_list"]:
            for pos in range(n):
                for ft in ("ValueError", "Unpicklable"):
                    npr = int(rng.integers(2, 5))
                    delays = [float(x) for x in rng.choice([0.0, 0.02, 0.05], size=n)]
                    scs.append({"np": npr, "n_tasks": n, "delays": delays, "fail_at": pos, "fail_type": ft, "second_call": bool(pos % 2 == 0)})
        scs.append({"np": 1, "n_tasks": 4, "delays": [0.0] * 4, "fail_at": 2, "fail_type": "ValueError"})
        # as many (or more) failures as workers: in one call, and spread over consecutive calls
        for npr in (2, 3):
            for ft in ("ValueError", "Unpicklable"):
                scs.append({"np": npr, "n_tasks": npr + 3, "delays": [0.02] * (npr + 3), "fail_at": list(range(npr)), "fail_type": ft, "second_call": True})
                scs.append({"np": npr, "n_tasks": 2 * npr + 1, "delays": [0.01] * (2 * npr + 1), "fail_at": list(range(0, 2 * npr, 2)) + [2 * npr], "fail_type": ft, "second_call": True})
                scs.append({"np": npr, "n_tasks": 3, "delays": [0.0, 0.02, 0.0], "fail_at": 1, "fail_type": ft, "repeat_failing": npr + 1, "second_call": True})
        # two failing tasks, the earlier one (in task order) finishing later: the serial loop raises the
        # exception of the earlier one; and a fast failure while the other tasks are still running,
        # followed at once by a second call on the same ParallelMap (no left-over results)
        for npr in (2, 3, 4):
            scs.append({"np": npr, "n_tasks": npr + 1, "delays": [0.25] + [0.0] * npr, "fail_at": [0, 1], "fail_type": "ValueError", "second_call": True})
            scs.append({"np": npr, "n_tasks": npr, "delays": [0.3, 0.0] + [0.3] * (npr - 2), "fail_at": 1, "fail_type": "ValueError", "second_call": True})
            scs.append({"np": 4, "n_tasks": 3, "delays": [0.3, 0.0, 0.3], "fail_at": 1, "fail_type": "Unpicklable" if npr == 3 else "ValueError", "second_call": True})
    shard, nsh = int(a.get("shard", 0)), int(a.get("nshards", 1))
    scs = [s for i, s in enumerate(scs) if i % nsh == shard]
    acc = Acc()
    orders = set()
    samples = []
    inconclusive = []
    for sc in scs:
        r = run_scenario(sc)
        cls = "np=%d" % sc["np"] if sc.get("fail_at") is None else "fault:%s" % sc.get("fail_type")
        if sc["np"] == 1:
            cls += "(serial control)"
        where = {"scenario": sc}
        if r.get("outcome") in ("watchdog", "crash"):
            inconclusive.append("scenario %s: %s" % (json.dumps(sc), r.get("outcome")))
            continue
        c0 = r["call0"]
        where["observed"] = c0
        if len(samples) < 3:
            samples.append({"scenario": sc, "history": c0})
        orders.add((sc["n_tasks"], tuple(c0["completion_order"])))
        if sc.get("fail_at") is None:
            acc.add("call returns (never blocks for ever)", cls, 1.0 if c0["hang"] else 0.0, 0, where=where, sig="blocked for ever although every task finished")
            if not c0["hang"]:
                acc.add("results equal list(map(f, args)) position by position", cls, 0.0 if c0.get("positions_ok") else 1.0, 0, where=where, sig="exception %s" % c0.get("exception") if c0.get("exception") else "wrong positions")
            if sc.get("expect_order") is not None:
                acc.add("induced completion order observed", "orders-induced", 0.0 if c0["completion_order"] == sc["expect_order"] else 1.0, 1.0, where=where, note="informational: a mismatch only means the OS scheduled differently")
        else:
            acc.add("failing task: caller does not block for ever", cls, 1.0 if c0["hang"] else 0.0, 0, where=where, sig="task raised in a worker; caller blocked for ever (state: all started tasks finished, %d worker(s) alive)" % c0.get("workers_alive", -1))
            if not c0["hang"]:
                acc.add("failing task: caller receives an exception", cls, 0.0 if c0.get("exception") else 1.0, 0, where=where, sig="returned %s results instead of raising" % c0.get("n_returned"))
                if c0.get("exception") and sc["fail_type"] == "ValueError":
                    acc.add("failing task: exception type as in serial execution", cls, 0.0 if c0["exception"] == "ValueError" else 1.0, 0, where=where, sig="got %s" % c0.get("exception"))
                ff = r.get("model_first_failing_task")
                if c0.get("exception") and ff is not None and c0.get("exception_msg") is not None:
                    acc.add("failing task: the exception is that of the first failing task in task order (as the serial loop)", cls, 0.0 if ("task %d failed" % ff) in c0["exception_msg"] else 1.0, 0, where=where, sig="serial: 'task %d failed'; got %r" % (ff, c0["exception_msg"][:80]))
                if "call1" in r:
                    c1 = r["call1"]
                    ok = (not c1["hang"]) and (c1.get("exception") is not None or c1.get("positions_ok"))
                    acc.add("next call on the same ParallelMap: correct positions or an exception", cls, 0.0 if ok else 1.0, 0, where=dict(where, second=c1), sig="hang" if c1["hang"] else "stale results in wrong positions")
                    # a serial loop keeps no state: after the failed call the next one simply works
                    ok2 = (not c1["hang"]) and c1.get("exception") is None and bool(c1.get("positions_ok"))
                    acc.add("next call on the same ParallelMap behaves like a fresh serial loop (returns the right results)", cls, 0.0 if ok2 else 1.0, 0, where=dict(where, second=c1), sig="second call: %s" % ("hang" if c1["hang"] else (c1.get("exception") or "wrong positions")))
    out = {"records": acc.records(), "executions": len(scs), "distinct_keys": ["order:%d:%s" % (n, ",".join(map(str, o))) for n, o in sorted(orders)], "samples": samples, "inconclusive": inconclusive, "distinct_completion_orders": len(orders)}
    write_out(d, out)


if __name__ == "__main__":
    main()
