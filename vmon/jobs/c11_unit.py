"""C11 unit drive of the real mesh._find_intersection on synthetic geometry: a straight flux
surface (psi = Z) that crosses a wall with teeth several times between its X-point end and its
far end.  The target is the crossing nearest the X-point end (the first one met coming from the
X-point); the oracle knows every crossing exactly (the teeth have vertical faces)."""

import os
import sys
import warnings

import numpy as np

from .common import Acc, load_job, write_out

warnings.simplefilter("ignore")


def quiet_call(fn, *a, **k):
    old = sys.stdout
    sys.stdout = open(os.devnull, "w")
    try:
        return fn(*a, **k)
    finally:
        sys.stdout.close()
        sys.stdout = old


def make_eq(wall_pts):
    from hypnotoad.core.equilibrium import Equilibrium, Point2D

    class E(Equilibrium):
        def __init__(self, s):
            self.user_options = Equilibrium.user_options_factory.create(s)
            super().__init__(s)

    eq = E({"finecontour_Nfine": 200})
    eq.psi = lambda R, Z: Z + 0.0 * R
    eq.f_R = lambda R, Z: 0.0 * R
    eq.f_Z = lambda R, Z: 1.0 + 0.0 * R
    eq.wall = [Point2D(r, z) for r, z in wall_pts]
    cw = np.array(list(wall_pts) + [wall_pts[0]], float)
    eq.closed_wallarray = cw
    return eq


def comb_wall(teeth, r_outer, side):
    """Vessel [r_outer, 2] x [-0.5, 0.5] (side='lower': the far end of the contour is at small R) with
    teeth hanging from the top down to Z=-0.2, each given as (r_left, r_right).  Anticlockwise."""
    pts = [(r_outer, -0.5), (2.0, -0.5), (2.0, 0.5)]
    for rl, rr in sorted(teeth, reverse=True):
        pts += [(rr, 0.5), (rr, -0.2), (rl, -0.2), (rl, 0.5)]
    pts += [(r_outer, 0.5)]
    if side == "upper":
        # mirror in R about 1.0 so that the far end is at large R; keep anticlockwise
        pts = [(2.0 - r, z) for r, z in pts][::-1]
    return pts


def main():
    d, job = load_job()
    a = job["args"]
    rng = np.random.default_rng(int(a["seed"]))
    from hypnotoad.core import mesh as meshmod
    from hypnotoad.core.equilibrium import Point2D, PsiContour

    acc = Acc()
    samples = []
    nexec = 0
    distinct = 0
    for t in range(int(a["trials"])):
        nteeth = int(rng.integers(0, 3)) if t % 3 else int(rng.integers(1, 3))
        side = "lower" if rng.random() < 0.5 else "upper"
        z0 = float(rng.uniform(-0.1, 0.3))
        r_outer = float(rng.uniform(0.05, 0.15))
        # teeth between r_outer + 0.1 and 0.8, each 0.08..0.12 wide, gaps >= 0.1 (segments are 0.03 long)
        teeth = []
        r = r_outer + float(rng.uniform(0.1, 0.2))
        for k in range(nteeth):
            w = float(rng.uniform(0.08, 0.12))
            teeth.append((r, r + w))
            r += w + float(rng.uniform(0.1, 0.2))
        wall = comb_wall(teeth, r_outer, side)
        # the contour: from just beyond the outer wall (far end) to R = 1.2 (X-point end), spacing 0.03
        rs = np.arange(r_outer - 0.06, 1.2, 0.03)
        if side == "upper":
            rs = (2.0 - rs)[::-1]
        eq = make_eq(wall)
        c = PsiContour(points=[Point2D(float(x), z0) for x in rs], psival=z0, settings=dict(eq.user_options), Rrange=(-np.inf, np.inf), Zrange=(-np.inf, np.inf))
        c.startInd = 0
        c.endInd = len(c) - 1
        # expected: the crossing nearest the X-point end
        if teeth:
            x_exp = max(rr for _, rr in teeth)
        else:
            x_exp = r_outer
        if side == "upper":
            x_exp = 2.0 - x_exp
        cls = "%s wall, %d teeth" % (side, nteeth)
        nexec += 1
        where = {"side": side, "teeth": teeth, "r_outer": r_outer, "z0": z0}
        try:
            res = quiet_call(meshmod._find_intersection, 0, c, equilibrium=eq, lower_wall=(side == "lower"), upper_wall=(side == "upper"), max_extend=100, psi=eq.psi)
        except Exception as e:  # noqa: BLE001
            acc.add("_find_intersection returns on a straight surface crossing a toothed wall", cls, 1.0, 0, where=where, sig="%s: %s" % (type(e).__name__, str(e)[:100]))
            continue
        distinct += 1
        cc, li, lp, ui, up = res
        pt = lp if side == "lower" else up
        if len(samples) < 3:
            samples.append(dict(where, expected_R=x_exp, got=[pt.R, pt.Z] if pt is not None else None))
        if pt is None:
            acc.add("a target point is returned", cls, 1.0, 0, where=where)
            continue
        acc.add("target = the wall crossing nearest the X-point end of the contour", cls, abs(pt.R - x_exp), 1e-6, where=dict(where, expected_R=x_exp, got_R=pt.R), sig="target placed on another crossing of the same flux surface" if abs(pt.R - x_exp) > 1e-3 else None)
        acc.add("target on its flux surface", cls, abs(pt.Z - z0), 1e-7, where=where)
        # the returned segment index brackets the target
        idx = li if side == "lower" else ui
        p_a, p_b = cc[idx], cc[idx + 1]
        lo, hi = min(p_a.R, p_b.R), max(p_a.R, p_b.R)
        acc.add("returned segment index brackets the target", cls, 0.0 if lo - 1e-9 <= pt.R <= hi + 1e-9 else 1.0, 0, where=dict(where, segment=[p_a.R, p_b.R], got_R=pt.R))
    write_out(d, {"records": acc.records(), "executions": nexec, "distinct": distinct, "samples": samples})


if __name__ == "__main__":
    main()
