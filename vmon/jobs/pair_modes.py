"""Pair checkers that need the in-memory captures: mirror image (C16) and global
sign/scale relations between two grids (C16 reversal pairs)."""

import math

import numpy as np

from .. import runcase


def _swap(name):
    if "lower" in name:
        return name.replace("lower", "upper")
    if "upper" in name:
        return name.replace("upper", "lower")
    return name


def mode_mirror(acc, cls, A, B, da, db, ncA, ncB, args):
    capA = runcase.load_capture(da, A)
    capB = runcase.load_capture(db, B)
    ra = {r.name: r for r in capA.mesh.regions.values()}
    rb = {r.name: r for r in capB.mesh.regions.values()}
    acc.add("mirror: same number of regions", cls, abs(len(ra) - len(rb)), 0)
    pos_tol = float(args.get("pos_tol", 1e-9))
    rel_tol = float(args.get("rel_tol", 1e-8))
    self_mirror = args.get("self_mirror", False)
    for name, r in ra.items():
        mname = _swap(name)
        if mname not in rb:
            acc.add("mirror: region %s has a partner" % name, cls, 1.0, 0, sig="no region %s in the mirrored grid" % mname)
            continue
        m = rb[mname]
        if (r.nx, r.ny) != (m.nx, m.ny):
            acc.add("mirror: region sizes equal", cls, 1.0, 0, sig="%s (%d,%d) vs %s (%d,%d)" % (name, r.nx, r.ny, mname, m.nx, m.ny))
            continue
        myg = int(capA.mesh.user_options.y_boundary_guards)
        ny = r.ny
        # in-domain cells / faces and guard cells reported separately
        lower_t = r.connections["lower"] is None
        upper_t = r.connections["upper"] is None
        dom_c = np.ones(ny, bool)
        dom_f = np.ones(ny + 1, bool)
        if lower_t:
            dom_c[:myg] = False
            dom_f[:myg] = False
        if upper_t:
            dom_c[ny - myg :] = False
            dom_f[ny - myg + 1 :] = False

        def rev(arr):
            return arr[:, ::-1]

        # positions: the region's OWN contour points (before the shared y-faces are
        # overwritten with the upper neighbour's copies)
        PA = np.array([[[p.R, p.Z] for p in c] for c in r.contours])
        PB = np.array([[[p.R, p.Z] for p in c] for c in m.contours])[:, ::-1, :]
        dist = np.hypot(PA[..., 0] - PB[..., 0], PA[..., 1] + PB[..., 1])
        npol = dist.shape[1]
        dom_p = np.ones(npol, bool)
        if lower_t:
            dom_p[: 2 * myg] = False
        if upper_t:
            dom_p[npol - 2 * myg :] = False
        acc.add("mirror: R equal, Z negated (in-domain points, own contour points)", cls, float(dist[:, dom_p].max()), pos_tol, where={"region": name}, n=int(dom_p.sum()) * dist.shape[0])
        if (~dom_p).any():
            acc.add("mirror: R equal, Z negated (boundary guard cells)", cls, float(dist[:, ~dom_p].max()), pos_tol, where={"region": name}, n=int((~dom_p).sum()) * dist.shape[0], sig="guard cells beyond a target are not the mirror image")
        # the y-faces shared with a neighbour as written to the file (upper neighbour's copy)
        for loc in ("ylow", "corners"):
            R1, Z1 = getattr(r.Rxy, loc), getattr(r.Zxy, loc)
            R2, Z2 = rev(getattr(m.Rxy, loc)), rev(getattr(m.Zxy, loc))
            ends = ([0] if r.connections["lower"] is not None else []) + ([-1] if r.connections["upper"] is not None else [])
            dj = np.hypot(R1 - R2, Z1 + Z2)[:, ends]
            if ends:
                acc.add("mirror: shared y-faces at region joins as written (copied from the upper neighbour)", cls, float(dj.max()), 1e-7, where={"region": name, "loc": loc}, sig="join faces differ from the mirror image (own end point vs upper neighbour's copy)")
        for fld, absval in (("psixy", False), ("hy", False), ("Bpxy", True), ("Bxy", False), ("g11", True), ("g22", True), ("g33", True), ("g_11", True), ("g_22", True), ("g_33", True), ("J", True), ("g23", True), ("g_23", True)):
            for loc, dom in (("centre", dom_c), ("ylow", dom_f)):
                a1 = getattr(getattr(r, fld), loc)
                a2 = rev(getattr(getattr(m, fld), loc))
                dom = dom.copy()
                if loc == "ylow":
                    dom[0] = dom[-1] = False  # join / target faces: positions are copies or estimates
                    if lower_t:
                        dom[: myg + 1] = False  # the target face's hy reaches into the guard cell
                    if upper_t:
                        dom[ny - myg :] = False
                if absval:
                    a1, a2 = np.abs(a1), np.abs(a2)
                if not dom.any():
                    continue
                loc_e = np.abs(a1 - a2) / np.maximum(np.abs(a1), 1e-300)
                acc.add("mirror: %s equal" % ("|%s|" % fld if absval else fld), cls, float(loc_e[:, dom].max()), rel_tol, where={"region": name, "loc": loc})
    # topology integers
    tA = {k: int(ncA[k]) for k in ("ixseps1", "ixseps2", "jyseps1_1", "jyseps2_1", "jyseps1_2", "jyseps2_2", "ny_inner", "nx", "ny")}
    tB = {k: int(ncB[k]) for k in tA}
    acc.add("mirror: nx, ny equal", cls, abs(tA["nx"] - tB["nx"]) + abs(tA["ny"] - tB["ny"]), 0)
    if tA["jyseps2_1"] != tA["jyseps1_2"]:
        # double null: lower <-> upper exchanges the two separatrix indices
        acc.add("mirror: ixseps1 <-> ixseps2", cls, abs(tA["ixseps1"] - tB["ixseps2"]) + abs(tA["ixseps2"] - tB["ixseps1"]), 0, sig="%s vs %s" % (tA, tB))
    else:
        acc.add("mirror: ixseps equal (single null)", cls, abs(tA["ixseps1"] - tB["ixseps1"]) + abs(tA["ixseps2"] - tB["ixseps2"]), 0)


ALLOWED = [1.0, -1.0]
for k in (1, 2, 3, 4):
    for s in (1.0, -1.0):
        ALLOWED += [s * (2 * math.pi) ** k, s * (2 * math.pi) ** (-k)]


def mode_scaled(acc, cls, A, B, da, db, ncA, ncB, args):
    """positions unchanged; every other field equal up to ONE global sign / power of 2 pi."""
    pos_tol = float(args.get("pos_tol", 0.0))
    for k in ncA:
        if k.startswith("__"):
            continue
        a = np.asarray(ncA[k], float)
        b = np.asarray(ncB.get(k, np.nan), float)
        if a.shape != b.shape:
            acc.add("reversal: same shapes", cls, 1.0, 0, sig=k)
            continue
        if k.startswith(("Rxy", "Zxy", "closed_wall", "penalty_mask", "dy", "y-coord", "theta")):
            m = np.isfinite(a) & np.isfinite(b)
            acc.add("reversal: positions unchanged", cls, float(np.abs(a[m] - b[m]).max()) if m.any() else 0.0, pos_tol, sig=k, where={"var": k})
            continue
        if k.startswith(("poloidal_distance", "total_poloidal", "hy", "hthe")):
            m = np.isfinite(a) & np.isfinite(b)
            acc.add("reversal: lengths unchanged", cls, float((np.abs(a[m] - b[m]) / np.maximum(np.abs(b[m]), 1e-12)).max()) if m.any() else 0.0, float(args.get("len_rel_tol", args.get("rel_tol", 1e-9))), sig=k, where={"var": k})
            continue
        if args.get("fields") is not None and not any(k == f or k.startswith(f + "_") for f in args["fields"]):
            continue
        if a.ndim == 0 and k in ("nx", "ny", "y_boundary_guards", "ixseps1", "ixseps2", "jyseps1_1", "jyseps2_1", "jyseps1_2", "jyseps2_2", "ny_inner"):
            acc.add("reversal: topology unchanged", cls, abs(float(a) - float(b)), 0, sig=k)
            continue
        m = np.isfinite(a) & np.isfinite(b) & (b != 0)
        if not np.array_equal(np.isfinite(a), np.isfinite(b)):
            acc.add("reversal: same finite/NaN pattern", cls, 1.0, 0, sig=k)
            continue
        if not m.any():
            acc.add("reversal: zero fields stay zero", cls, float(np.abs(a[np.isfinite(a)]).max()) if np.isfinite(a).any() else 0.0, 0.0, sig=k)
            continue
        ratio = a[m] / b[m]
        # weight by magnitude: take the ratio at the largest |b|
        c = float(ratio.flat[int(np.argmax(np.abs(b[m])))])
        best = min(ALLOWED, key=lambda x: abs(c - x))
        sc = max(float(np.abs(a[m]).max()), 1e-300)
        resid = float(np.abs(a[m] - best * b[m]).max()) / sc
        acc.add("reversal: field = (one global sign or power of 2*pi) x field", cls, resid, float(args.get("rel_tol", 1e-9)), sig="%s: best factor %.6g" % (k, best), where={"var": k, "factor": best, "ratio_at_max": c})
