"""C17 unit drive: geqdsk write/read round trip, independent fixed-width reference
parser, separator-free Fortran text, and read_geqdsk's mapping onto R, Z, psi, wall."""

import io
import warnings

import numpy as np

from .. import families
from .common import Acc, load_job, write_out

warnings.simplefilter("ignore")

SCALARS = ["rdim", "zdim", "rcentr", "rleft", "zmid", "rmagx", "zmagx", "simagx", "sibdry", "bcentr", "cpasma"]


def rnd_value(rng):
    k = rng.random()
    if k < 0.08:
        return 0.0
    m = float(rng.uniform(1.0, 9.999999999))
    e = int(rng.integers(-99, 100)) if k < 0.5 else int(rng.integers(-6, 7))
    s = -1.0 if rng.random() < 0.5 else 1.0
    v = s * m * 10.0**e
    # keep the two-digit exponent after rounding to 10 significant digits
    if not (1e-99 <= abs(v) < 9.9999999995e99):
        v = s * m
    return v


def rnd_array(rng, shape):
    a = np.empty(shape)
    f = a.reshape(-1)
    for i in range(f.size):
        f[i] = rnd_value(rng)
    return a


def close10(a, b):
    """max over elements of |a-b| / |b| in units of the format's half-ulp (5e-10)."""
    a = np.asarray(a, float)
    b = np.asarray(b, float)
    if a.shape != b.shape:
        return float("inf")
    den = np.where(b == 0, 1.0, np.abs(b))
    return float(np.max(np.abs(a - b) / den)) / 5.01e-10 if a.size else 0.0


def reference_parse(text):
    """Independent parser for the fixed-width format: header '...3i4', then 16-character
    fields (5e16.9), '2i5' before the boundary/limiter pairs."""
    lines = text.split("\n")
    head = lines[0]
    idum, nx, ny = int(head[-12:-8]), int(head[-8:-4]), int(head[-4:])
    pos = [1]

    def fields(n):
        vals = []
        while len(vals) < n:
            ln = lines[pos[0]]
            pos[0] += 1
            for k in range(0, len(ln), 16):
                chunk = ln[k : k + 16]
                if chunk.strip():
                    vals.append(float(chunk))
        assert len(vals) == n, (len(vals), n)
        return vals

    out = {"nx": nx, "ny": ny, "idum": idum}
    sc = fields(20)
    names = ["rdim", "zdim", "rcentr", "rleft", "zmid", "rmagx", "zmagx", "simagx", "sibdry", "bcentr", "cpasma", "simagx2", None, "rmagx2", None, "zmagx2", None, "sibdry2", None, None]
    for n, v in zip(names, sc):
        if n:
            out[n] = v
    out["fpol"] = np.array(fields(nx))
    out["pres"] = np.array(fields(nx))
    out["ffprime"] = np.array(fields(nx))
    out["pprime"] = np.array(fields(nx))
    out["psi"] = np.array(fields(nx * ny)).reshape(ny, nx).T
    out["qpsi"] = np.array(fields(nx))
    ln = lines[pos[0]]
    pos[0] += 1
    nb, nl = int(ln[0:5]), int(ln[5:10])
    if nb:
        v = fields(2 * nb)
        out["rbdry"], out["zbdry"] = np.array(v[0::2]), np.array(v[1::2])
    if nl:
        v = fields(2 * nl)
        out["rlim"], out["zlim"] = np.array(v[0::2]), np.array(v[1::2])
    return out


def fortran_text(data, sep="", filled=False):
    """Hand-built text the way a Fortran code writes it (5e16.9, numbers may abut).
    filled=True: every 16-character field is completely used (d.ddddddddddE+dd for non-negative
    numbers), so that a number is followed directly by the first DIGIT of the next one."""

    def e16(x):
        if filled and x >= 0:
            return "%16.10E" % x
        return "%16.9E" % x

    lines = ["%-48s%4d%4d%4d" % ("  EFITD    01/01/2001    #000001  1000ms", 3, data["nx"], data["ny"])]
    sc = [data[k] for k in ("rdim", "zdim", "rcentr", "rleft", "zmid")] + [data[k] for k in ("rmagx", "zmagx", "simagx", "sibdry", "bcentr")]
    sc += [data["cpasma"], data["simagx"], 0.0, data["rmagx"], 0.0, data["zmagx"], 0.0, data["sibdry"], 0.0, 0.0]

    def block(vals):
        vals = list(vals)
        for k in range(0, len(vals), 5):
            lines.append(sep.join(e16(v) for v in vals[k : k + 5]))

    block(sc)
    for k in ("fpol", "pres", "ffprime", "pprime"):
        block(data[k])
    block(data["psi"].T.reshape(-1))
    block(data["qpsi"])
    nb = len(data.get("rbdry", []))
    nl = len(data.get("rlim", []))
    lines.append("%5d%5d" % (nb, nl))
    if nb:
        block(np.column_stack([data["rbdry"], data["zbdry"]]).reshape(-1))
    if nl:
        block(np.column_stack([data["rlim"], data["zlim"]]).reshape(-1))
    return "\n".join(lines) + "\n"


def main():
    d, job = load_job()
    a = job["args"]
    rng = np.random.default_rng(int(a["seed"]))
    ntr = int(a["trials"])
    from hypnotoad.geqdsk import _geqdsk

    acc = Acc()
    samples = []
    nexec = 0
    distinct = 0
    big = list(a.get("big_sizes", []))
    for t in range(ntr + len(big)):
        if t >= ntr:
            nx, ny = big[t - ntr]
            cls = "size>=1000"
        else:
            nx = int(rng.integers(1, 131))
            ny = int(rng.integers(1, 131))
            cls = "nx,ny<=130"
        data = {"nx": nx, "ny": ny}
        for k in SCALARS:
            data[k] = rnd_value(rng)
        for k in ("fpol", "pres", "qpsi"):
            data[k] = rnd_array(rng, nx)
        opt = rng.random()
        if opt < 0.5:
            data["ffprime"] = rnd_array(rng, nx)
            data["pprime"] = rnd_array(rng, nx)
        data["psi"] = rnd_array(rng, (nx, ny)) if nx * ny <= 20000 else rng.normal(size=(nx, ny))
        nb = int(rng.integers(0, 40)) if rng.random() < 0.7 else 0
        nl = int(rng.integers(0, 40)) if rng.random() < 0.7 else 0
        if nb:
            data["rbdry"], data["zbdry"] = rnd_array(rng, nb), rnd_array(rng, nb)
        if nl:
            data["rlim"], data["zlim"] = rnd_array(rng, nl), rnd_array(rng, nl)
        hv = int(rng.integers(0, 5))
        kw = [{}, {"label": "VERIF"}, {"label": "ABCDEFGHIJK", "shot": 12345, "time": 250}, {"shot": "#123456", "time": " 1000ms"}, {"label": "X Y", "shot": 1, "time": 3}][hv]
        cls2 = cls + "|hdr%d|%s%s%s" % (hv, "opt" if "ffprime" in data else "noopt", "+bdry" if nb else "", "+lim" if nl else "")
        nexec += 1
        buf = io.StringIO()
        where = {"nx": nx, "ny": ny, "nbdry": nb, "nlim": nl, "header": kw}
        try:
            _geqdsk.write(data, buf, **kw)
        except Exception as e:
            acc.add("write succeeds", cls2, 1.0, 0.0, where=where, sig="write raised %s" % type(e).__name__)
            continue
        text = buf.getvalue()
        try:
            back = _geqdsk.read(io.StringIO(text))
        except Exception as e:
            acc.add("read(write(data)) succeeds", cls, 1.0, 0.0, where=where, sig="read raised %s: %s (nx=%d ny=%d)" % (type(e).__name__, str(e)[:60], nx, ny) if max(nx, ny) < 1000 else "header fields abut for nx or ny >= 1000: read raised %s" % type(e).__name__)
            continue
        acc.add("read(write(data)) succeeds", cls, 0.0, 0.0, where=where)
        distinct += 1
        if len(samples) < 2:
            samples.append({"nx": nx, "ny": ny, "nbdry": nb, "nlim": nl, "header_line": text.split("\n")[0], "second_line": text.split("\n")[1]})
        acc.add("nx, ny", cls2, 0.0 if (back["nx"] == nx and back["ny"] == ny) else 1.0, 0.0, where=where)
        for k in SCALARS:
            acc.add("scalars to 10 significant digits", cls2, close10(back[k], data[k]), 1.0, where=where, sig=k)
        for k in ("fpol", "pres", "qpsi", "psi"):
            acc.add("arrays to 10 significant digits (%s)" % k, cls2, close10(back[k], data[k]), 1.0, where=where)
        for k in ("ffprime", "pprime"):
            exp = data.get(k, np.zeros(nx))
            acc.add("optional profiles (present or zero-filled)", cls2, close10(back[k], exp), 1.0, where=where)
        for k in ("rbdry", "zbdry", "rlim", "zlim"):
            if k in data:
                acc.add("boundary / limiter points", cls2, close10(back.get(k, np.zeros(0)), data[k]), 1.0, where=where, sig=k)
            else:
                acc.add("absent boundary / limiter stays absent", cls2, 0.0 if k not in back else 1.0, 0.0, where=where)
        # independent fixed-width reference parser on the written text
        try:
            ref = reference_parse(text)
            e = max(close10(ref[k], data[k]) for k in ("fpol", "pres", "qpsi", "psi"))
            e = max([e] + [close10(ref[k], data[k]) for k in SCALARS])
            if nb:
                e = max(e, close10(ref["rbdry"], data["rbdry"]), close10(ref["zbdry"], data["zbdry"]))
            if nl:
                e = max(e, close10(ref["rlim"], data["rlim"]), close10(ref["zlim"], data["zlim"]))
            acc.add("written text parses with an independent fixed-width (3i4 / 5e16.9 / 2i5) parser", cls, e, 1.0, where=where)
        except Exception as e:
            acc.add("written text parses with an independent fixed-width (3i4 / 5e16.9 / 2i5) parser", cls, 1.0, 0.0, where=where, sig="%s: %s" % (type(e).__name__, str(e)[:80]))
        # Fortran-style text without any separators fed to the real reader
        if nx * ny <= 4000:
            full = dict(data)
            full.setdefault("ffprime", np.zeros(nx))
            full.setdefault("pprime", np.zeros(nx))
            for sep, nm in (("", "abutting"), (" ", "spaced"), ("", "abutting, fields completely filled")):
                # Fortran e16.9 leaves a leading blank for non-negative numbers only when the
                # field is wider than the number: 16 wide, 15/16 characters used
                txt = fortran_text(full, sep, filled=nm.endswith("filled"))
                try:
                    b2 = _geqdsk.read(io.StringIO(txt))
                    e = max(close10(b2[k], full[k]) for k in ("fpol", "pres", "ffprime", "pprime", "qpsi", "psi"))
                    e = max([e] + [close10(b2[k], full[k]) for k in SCALARS])
                    if nb:
                        e = max(e, close10(b2["rbdry"], full["rbdry"]))
                    if nl:
                        e = max(e, close10(b2["zlim"], full["zlim"]))
                    acc.add("reader accepts Fortran text (%s numbers)" % nm, cls, e, 1.0, where=where)
                except Exception as e:
                    acc.add("reader accepts Fortran text (%s numbers)" % nm, cls, 1.0, 0.0, where=where, sig="%s: %s" % (type(e).__name__, str(e)[:80]))
    # ---- read_geqdsk mapping -------------------------------------------------------------
    from hypnotoad.cases import tokamak

    from ..build import geqdsk_data

    for t in range(int(a.get("mapping_cases", 2))):
        e_ = {"topo": str(rng.choice(["lsn", "usn", "cdn"])), "s": float(rng.choice([-1, 1])), "nR": int(rng.integers(17, 50)), "nZ": int(rng.integers(17, 60)), "shift": [float(rng.uniform(-0.01, 0.01)), float(rng.uniform(-0.01, 0.01))], "pn_max": 1.0}
        # a box that is not centred on Z=0 (zmid != 0): the whole machine shifted, or more room above
        # than below; the first case always has zmid != 0
        zo = float(rng.choice([0.9, -1.3, 0.35])) if (t == 0 or rng.random() < 0.5) else 0.0
        e_["zoff"] = zo
        if rng.random() < 0.5:
            e_["Zlim"] = [-0.7, float(rng.choice([0.9, 1.2]))]
            # same vertical resolution as without the extra room (read_geqdsk refuses a table too
            # coarse to reproduce psi at the X-point)
            e_["nZ"] = int(np.ceil(e_["nZ"] * (e_["Zlim"][1] + 0.7) / 1.4))
        fam = families.GaussFamily(e_)
        R1D, Z1D, psi2D, psi1D, fpol1D, pres = fam.arrays()
        wall = families.make_wall({"kind": str(rng.choice(["box", "slant", "poly"])), "cw": bool(rng.random() < 0.5), "zoff": zo})
        inp = dict(R1D=R1D, Z1D=Z1D, psi2D=psi2D, psi1D=psi1D, fpol1D=fpol1D, pressure=pres, wall=wall)
        data = geqdsk_data(inp, fam)
        buf = io.StringIO()
        _geqdsk.write(data, buf, label="VERIF")
        for interp in ("spline", "dct"):
            cls = "read_geqdsk|%s|%s" % (interp, "zmid=0" if abs(Z1D[0] + Z1D[-1]) < 1e-12 else "zmid!=0")
            nexec += 1
            fh = io.StringIO(buf.getvalue())
            import contextlib
            import os
            import sys

            old = sys.stdout
            sys.stdout = open(os.devnull, "w")
            try:
                eq = tokamak.read_geqdsk(fh, settings={"psi_interpolation_method": interp}, make_regions=False)
            finally:
                sys.stdout.close()
                sys.stdout = old
            if isinstance(eq, tuple):
                acc.add("read_geqdsk succeeds", cls, 1.0, 0.0, where=e_, sig=repr(eq[1])[:100])
                continue
            distinct += 1
            where = dict(e_)
            acc.add("Rmin/Rmax/Zmin/Zmax = file box", cls, max(abs(eq.Rmin - R1D[0]), abs(eq.Rmax - R1D[-1]), abs(eq.Zmin - Z1D[0]), abs(eq.Zmax - Z1D[-1])), 1e-9, where=where)
            R2, Z2 = np.meshgrid(R1D, Z1D, indexing="ij")
            sc = float(np.abs(psi2D).max())
            acc.add("psi(R_i, Z_j) = psi[i, j] of the file", cls, float(np.abs(eq.psi(R2, Z2) - psi2D).max()) / sc, 2e-9, where=where, note="1e-9: ten significant digits of the format")
            # transposition sensitivity: the same check against psi[j, i] must fail when nR != nZ
            pn = np.linspace(0, 1, 7)[1:-1]
            ps = fam.psi_axis + pn * (fam.psi_bdry - fam.psi_axis)
            acc.add("fpol on linspace(simagx, sibdry, nx)", cls, float(np.abs(eq.fpol(ps) - fam.F_of_psinorm(pn)).max()) / 2.3, 1e-5, where=where)
            acc.add("pressure on linspace(simagx, sibdry, nx)", cls, float(np.abs(eq.pressure(ps) - fam.P_of_psinorm(pn)).max()) / 1e3, 1e-5, where=where)
            wl = np.array([[p.R, p.Z] for p in eq.wall])
            from .. import exactgeom as xg

            ccw = xg.signed_area2([xg.P(p) for p in wl]) > 0
            acc.add("wall made anticlockwise", cls, 0.0 if ccw else 1.0, 0.0, where=where)
            a_in = xg.signed_area2([xg.P(p) for p in wall]) > 0
            exp = np.array(wall if a_in else wall[::-1])
            acc.add("wall = limiter points (to the format's digits)", cls, float(np.abs(wl - exp).max()) if wl.shape == exp.shape else 1.0, 1e-9, where=where)
            acc.add("byte-exact geqdsk text kept on the equilibrium", cls, 0.0 if getattr(eq, "geqdsk_input", None) == buf.getvalue() else 1.0, 0.0, where=where)
    write_out(d, {"records": acc.records(), "executions": nexec, "distinct": distinct, "samples": samples})


if __name__ == "__main__":
    main()
