"""Helpers for unit-level drive jobs: python -m vmon.jobs.<name> <jobdir>."""

import json
import os
import sys

from .. import env

env.setup_paths()

import numpy as np  # noqa: E402

np.seterr(all="ignore")


def load_job(argv=None):
    d = (argv or sys.argv)[1]
    with open(os.path.join(d, "job.json")) as f:
        job = json.load(f)
    return d, job


def write_out(d, out):
    from ..runcase import dump_json

    dump_json(os.path.join(d, "out.json"), out)


class Acc:
    """Accumulates worst residuals per (predicate, class)."""

    def __init__(self):
        self.w = {}

    def add(self, pred, cls, resid, thr, where=None, sig=None, n=1, note=None):
        """Thresholds may differ between calls of one (pred, cls): the record keeps the
        residual with the largest margin residual/threshold, together with ITS threshold."""
        k = (pred, cls)
        e = self.w.setdefault(k, {"n": 0, "worst": 0.0, "thr": thr, "where": None, "sig": None, "nfail": 0, "note": note, "margin": -1.0})
        e["n"] += n
        bad = not (resid <= thr)
        if bad:
            e["nfail"] += 1
        if resid != resid:
            margin = float("inf")
        elif thr > 0:
            margin = resid / thr
        else:
            margin = float("inf") if resid > 0 else 0.0
        if margin > e["margin"] or (bad and e["where"] is None):
            e["margin"] = margin
            e["worst"] = float(resid)
            e["thr"] = thr
            e["where"] = where
            if bad and sig:
                e["sig"] = sig

    def records(self):
        from ..rec import rec

        out = []
        for (pred, cls), e in sorted(self.w.items()):
            r = rec(pred, cls, e["n"], e["worst"], e["thr"], where=e["where"], sig=e["sig"], note=e["note"])
            if e["nfail"]:
                r["ok"] = False
                r["nfail"] = e["nfail"]
            out.append(r)
        return out


def minimal_equilibrium():
    """A bare Equilibrium, enough to call the radial spacing functions."""
    from hypnotoad.core.equilibrium import Equilibrium

    class E(Equilibrium):
        def __init__(self):
            self.user_options = Equilibrium.user_options_factory.create({})
            super().__init__({})

    return E()
