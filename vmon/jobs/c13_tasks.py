"""Task function executed inside ParallelMap workers for the C13 history checker."""

import json
import os
import time


class Unpicklable(Exception):
    """An exception type whose instances cannot be pickled (holds a lambda)."""

    def __init__(self, msg):
        super().__init__(msg)
        self.payload = lambda: None


def _log(logdir, ev):
    ev["pid"] = os.getpid()
    ev["t"] = time.monotonic()
    with open(os.path.join(logdir, "%d.jsonl" % os.getpid()), "a") as f:
        f.write(json.dumps(ev) + "\n")


def task(tid, delay, mode, *, equilibrium=None, psi=None, f_R=None, f_Z=None, logdir=None, **kwargs):
    _log(logdir, {"ev": "start", "id": tid})
    if delay:
        time.sleep(delay)
    if mode == "ValueError":
        _log(logdir, {"ev": "raise", "id": tid})
        raise ValueError("task %d failed" % tid)
    if mode == "Unpicklable":
        _log(logdir, {"ev": "raise", "id": tid})
        raise Unpicklable("task %d failed" % tid)
    _log(logdir, {"ev": "end", "id": tid})
    return ("result", tid, tid * tid, psi(1.0, 2.0) if psi is not None else None)


class StubEq:
    """A tiny dill-able stand-in for the equilibrium handed to the workers."""

    def psi(self, R, Z):
        return R + 2 * Z

    def f_R(self, R, Z):
        return 1.0

    def f_Z(self, R, Z):
        return 2.0
