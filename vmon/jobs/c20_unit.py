"""C20 unit drive: segment/polygon predicates against exact rational arithmetic."""

import itertools
import math
import warnings
from fractions import Fraction as Fr

import numpy as np

from .. import exactgeom as xg
from .common import Acc, load_job, write_out

warnings.simplefilter("ignore")


class WallStub:
    """Just enough of an Equilibrium for Equilibrium.wallIntersection."""

    def __init__(self, closed):
        self.closed_wallarray = np.array(closed, float)


def exact_meet(a, b, closed):
    """(set of exact meeting points, degenerate?, all proper?)"""
    pts = []
    degenerate = False
    proper = True
    A, B = xg.P(a), xg.P(b)
    for i in range(len(closed) - 1):
        kind, pt = xg.seg_intersection(A, B, xg.P(closed[i]), xg.P(closed[i + 1]))
        if kind == "overlap":
            degenerate = True
        elif kind in ("point", "touch"):
            if kind == "touch":
                proper = False
            if pt not in pts:
                pts.append(pt)
    return pts, degenerate, proper


def near_degenerate(a, b, closed, eps=1e-12):
    """Random-coordinate drive: is any edge within eps (relative parameters) of touching?"""
    A, B = xg.P(a), xg.P(b)
    for i in range(len(closed) - 1):
        C, D = xg.P(closed[i]), xg.P(closed[i + 1])
        r = (B[0] - A[0], B[1] - A[1])
        s = (D[0] - C[0], D[1] - C[1])
        den = r[0] * s[1] - r[1] * s[0]
        if den == 0:
            return True
        qp = (C[0] - A[0], C[1] - A[1])
        t = float((qp[0] * s[1] - qp[1] * s[0]) / den)
        u = float((qp[0] * r[1] - qp[1] * r[0]) / den)
        for v, w in ((t, u), (u, t)):
            if (abs(v) < eps or abs(v - 1) < eps) and -eps <= w <= 1 + eps:
                return True
    return False


def check_wall(acc, cls, a, b, closed, stub, find_intersections, Point2D, wallIntersection, counters, exclude_touch=False):
    pts, degenerate, proper = exact_meet(a, b, closed)
    if degenerate or (exclude_touch and not proper):
        counters["degenerate_excluded"] += 1
        return
    scale = max(1.0, max(abs(x) for p in closed for x in p))
    got = find_intersections(stub.closed_wallarray, Point2D(*a), Point2D(*b))
    where = {"segment": [list(a), list(b)], "wall": [list(p) for p in closed], "exact": [[float(p[0]), float(p[1])] for p in pts], "got": None if got is None else got.tolist()}
    acc.add("find_intersections reports a point iff the segment meets the wall", cls, 0.0 if ((got is not None) == (len(pts) > 0)) else 1.0, 0.0, where=where, sig="exact=%d reported=%s" % (len(pts), "none" if got is None else str(len(got))))
    if got is not None and pts:
        # every reported point is an exact meeting point, every exact point is reported
        e1 = max(min(math.hypot(g[0] - float(p[0]), g[1] - float(p[1])) for p in pts) for g in got)
        e2 = max(min(math.hypot(g[0] - float(p[0]), g[1] - float(p[1])) for g in got) for p in pts)
        acc.add("reported points lie on both segment and wall", cls, e1 / scale, 1e-12, where=where)
        acc.add("every meeting point is reported", cls, e2 / scale, 1e-12, where=where)
    counters["meet" if pts else "miss"] += 1
    if len(pts) <= 1:
        try:
            w = wallIntersection(stub, Point2D(*a), Point2D(*b))
            res = None if w is None else (w.R, w.Z)
            err = None
        except Exception as e:  # noqa: BLE001
            res = None
            err = type(e).__name__
        if len(pts) == 0:
            acc.add("wallIntersection returns None when the segment misses the wall", cls, 0.0 if (res is None and err is None) else 1.0, 0.0, where=where)
        else:
            ok = res is not None and math.hypot(res[0] - float(pts[0][0]), res[1] - float(pts[0][1])) <= 1e-12 * scale
            acc.add("wallIntersection returns the single meeting point (shared vertex = one point)", cls, 0.0 if ok else 1.0, 0.0, where=where, sig="raised %s" % err if err else None)
            if not proper:
                counters["shared_vertex_or_endpoint_single"] += 1


def main():
    d, job = load_job()
    a = job["args"]
    from hypnotoad.core.equilibrium import Equilibrium, Point2D, closest_approach, find_intersections
    from hypnotoad.utils import polygons

    wallIntersection = Equilibrium.wallIntersection
    mode = a["mode"]
    acc = Acc()
    counters = {"degenerate_excluded": 0, "meet": 0, "miss": 0, "shared_vertex_or_endpoint_single": 0}
    samples = []
    nexec = 0
    distinct = 0
    if mode == "lattice":
        N = int(a["N"])
        shard, nsh = int(a.get("shard", 0)), int(a.get("nshards", 1))
        pts = [(float(i), float(j)) for i in range(N) for j in range(N)]
        m = N - 1
        walls = [
            [(0, 0), (m, 1), (m - 1, m), (1, m - 1)],  # all four edges of mixed slope class
            [(0, 0), (m, 0), (m, m), (0, m)],  # axis aligned
            [(1, 0), (m, 2), (2, m)],  # triangle
            [(0, 1), (2, 0), (m, 1), (m, m - 1), (2, m), (0, m - 1)],  # hexagon
            [(0, 0), (m, 0), (m, m), (2, 2), (0, m)],  # non-convex with a reflex vertex
        ]
        variants = []
        for w in walls:
            w = [(float(x), float(y)) for x, y in w]
            variants.append(("as-is", w, lambda p: p))
            variants.append(("reversed", w[::-1], lambda p: p))
            variants.append(("transposed", [(y, x) for x, y in w], lambda p: (p[1], p[0])))
            variants.append(("translated+scaled", [(0.25 * x + 0.5, 0.25 * y - 1.5) for x, y in w], lambda p: (0.25 * p[0] + 0.5, 0.25 * p[1] - 1.5)))
        k = 0
        for vname, w, tr in variants:
            closed = w + [w[0]]
            stub = WallStub(closed)
            for p, q in itertools.permutations(pts, 2):
                k += 1
                if k % nsh != shard:
                    continue
                aa, bb = tr(p), tr(q)
                dR, dZ = abs(bb[0] - aa[0]), abs(bb[1] - aa[1])
                cls = "lattice|%s|%s" % (vname, "dR>dZ" if dR > dZ else "dR<=dZ")
                nexec += 1
                distinct += 1
                check_wall(acc, cls, aa, bb, closed, stub, find_intersections, Point2D, wallIntersection, counters)
        samples.append({"lattice": N, "walls": [[list(p) for p in w] for w in walls], "variants": ["as-is", "reversed", "transposed", "translated+scaled"]})
        exhaustive = True
    else:
        rng = np.random.default_rng(int(a["seed"]))
        ntr = int(a["trials"])
        exhaustive = False
        for t in range(ntr):
            nv = int(rng.integers(3, 13))
            ang = np.sort(rng.uniform(0, 2 * np.pi, nv))
            rad = rng.uniform(0.5, 1.5, nv)
            c = rng.normal(size=2)
            w = [(float(c[0] + r * np.cos(t_)), float(c[1] + r * np.sin(t_))) for r, t_ in zip(rad, ang)]
            if rng.random() < 0.5:
                w = w[::-1]
            closed = w + [w[0]]
            stub = WallStub(closed)
            for _ in range(8):
                p = tuple(float(x) for x in (c + rng.normal(scale=1.2, size=2)))
                if rng.random() < 0.5:
                    q = tuple(float(x) for x in (c + rng.normal(scale=1.2, size=2)))
                else:
                    # short segment, as in real use
                    q = (p[0] + float(rng.normal(scale=0.05)), p[1] + float(rng.normal(scale=0.05)))
                if rng.random() < 0.15:
                    q = (p[0], q[1]) if rng.random() < 0.5 else (q[0], p[1])  # vertical / horizontal
                if p == q:
                    continue
                nexec += 1
                if near_degenerate(p, q, closed):
                    counters["degenerate_excluded"] += 1
                    continue
                distinct += 1
                cls = "random|%s" % ("dR>dZ" if abs(q[0] - p[0]) > abs(q[1] - p[1]) else "dR<=dZ")
                check_wall(acc, cls, p, q, closed, stub, find_intersections, Point2D, wallIntersection, counters, exclude_touch=True)
                # reversed segment gives the same answer
                g1 = find_intersections(stub.closed_wallarray, Point2D(*p), Point2D(*q))
                g2 = find_intersections(stub.closed_wallarray, Point2D(*q), Point2D(*p))
                same = (g1 is None) == (g2 is None) and (g1 is None or (len(g1) == len(g2) and np.allclose(np.sort(g1, axis=0), np.sort(g2, axis=0), atol=1e-12, rtol=0)))
                acc.add("reversed segment behaves identically", cls, 0.0 if same else 1.0, 0.0, where={"segment": [list(p), list(q)], "wall": w})
            if t < 2:
                samples.append({"wall": w, "segment": [list(p), list(q)]})
            # ---- polygon area / orientation ---------------------------------------------
            ex = xg.signed_area2([xg.P(p_) for p_ in w]) / 2  # >0 anticlockwise
            if ex != 0:
                ar = polygons.area(w)  # positive = clockwise
                # rounding of a sum of products is proportional to the sum of the magnitudes of its terms
                # (R_i * Z_j products), not to the result: a thin sliver has a tiny area and full-size terms
                mag = sum(abs(w[i][0] * w[(i + 1) % len(w)][1]) + abs(w[(i + 1) % len(w)][0] * w[i][1]) for i in range(len(w)))
                acc.add("polygons.area = -exact signed area", "random|area", abs(ar + float(ex)) / max(abs(float(ex)), 1e-3 * mag), 1e-12, where={"polygon": w})
                acc.add("polygons.clockwise = exact orientation", "random|area", 0.0 if (polygons.clockwise(w) == (ex < 0)) else 1.0, 0.0, where={"polygon": w})
            # ---- polygon-polygon intersection ---------------------------------------------
            for closed_flags in ((True, True), (False, True), (True, False)):
                nv2 = int(rng.integers(2 if not closed_flags[0] else 3, 8))
                c2 = c + rng.normal(scale=1.0, size=2)
                ang2 = np.sort(rng.uniform(0, 2 * np.pi, nv2))
                w2 = [(float(c2[0] + r * np.cos(t_)), float(c2[1] + r * np.sin(t_))) for r, t_ in zip(rng.uniform(0.3, 1.2, nv2), ang2)]
                p1 = w2  # polygon 1 (may be open)
                p2 = w
                e1 = [(p1[i], p1[(i + 1) % len(p1)]) for i in range(len(p1) if closed_flags[0] else len(p1) - 1)]
                e2 = [(p2[i], p2[(i + 1) % len(p2)]) for i in range(len(p2) if closed_flags[1] else len(p2) - 1)]
                crossing = False
                degenerate = False
                for (s0, s1) in e1:
                    for (t0, t1) in e2:
                        kind, _ = xg.seg_intersection(xg.P(s0), xg.P(s1), xg.P(t0), xg.P(t1))
                        rr = (s1[0] - s0[0], s1[1] - s0[1])
                        ss = (t1[0] - t0[0], t1[1] - t0[1])
                        if abs(rr[0] * ss[1] - rr[1] * ss[0]) < 1e-5 or kind in ("touch", "overlap"):
                            degenerate = True
                        if kind == "point":
                            crossing = True
                nexec += 1
                if degenerate:
                    counters["degenerate_excluded"] += 1
                    continue
                got = polygons.intersect([p[0] for p in p1], [p[1] for p in p1], [p[0] for p in p2], [p[1] for p in p2], closed1=closed_flags[0], closed2=closed_flags[1])
                form = "closed" if closed_flags == (True, True) else ("open1" if not closed_flags[0] else "open2")
                acc.add("polygons.intersect = exact edge crossing (%s form)" % form, "random|intersect-" + form, 0.0 if bool(got) == crossing else 1.0, 0.0, where={"poly1": p1, "poly2": p2, "closed1": closed_flags[0], "closed2": closed_flags[1], "exact": crossing, "got": bool(got)}, sig="%s polyline: exact=%s got=%s" % (form, crossing, bool(got)))
            # ---- closest approach ------------------------------------------------------------
            for _ in range(4):
                pt = tuple(float(x) for x in rng.normal(size=2))
                s0 = tuple(float(x) for x in rng.normal(size=2))
                s1 = tuple(float(x) for x in (np.array(s0) + rng.normal(scale=10 ** rng.uniform(-3, 0.5), size=2)))
                if s0 == s1:
                    continue
                ex = math.sqrt(float(xg.dist2_point_segment(xg.P(pt), xg.P(s0), xg.P(s1))))
                got = float(closest_approach(np.array(pt), np.array(s0), np.array(s1)))
                nexec += 1
                acc.add("closest_approach = exact point-segment distance", "random|closest", abs(got - ex) / max(ex, 1e-300) if ex > 1e-9 else abs(got - ex), 1e-9, where={"point": pt, "a": s0, "b": s1})
    out = {"records": acc.records(), "executions": nexec, "distinct": distinct, "samples": samples, "counters": counters, "exhaustive": exhaustive}
    write_out(d, out)


if __name__ == "__main__":
    main()
