"""C10 unit drive: contracts on the poloidal spacing-function constructors and on the
guarded entry point getSfuncFixedSpacing, over seeded random parameters."""

import warnings

import numpy as np

from .common import Acc, load_job, write_out

warnings.simplefilter("ignore")


def make_region(kind, guards, ny, settings=None):
    from hypnotoad.core.equilibrium import Equilibrium, EquilibriumRegion, Point2D

    class E(Equilibrium):
        def __init__(self, s):
            self.user_options = Equilibrium.user_options_factory.create(s)
            super().__init__(s)

    s = {"y_boundary_guards": guards}
    s.update(settings or {})
    eqm = E(s)
    eqm.psi = lambda R, Z: R - Z
    pts = [Point2D(i * 0.3, i * 0.3) for i in range(11)]
    reg = EquilibriumRegion(equilibrium=eqm, name="inner_lower_divertor" if kind != "X.X" else "core", nSegments=1, nx=[1], ny=ny, kind=kind, ny_total=3 * ny, points=pts, psival=0.0, Rrange=(-np.inf, np.inf), Zrange=(-np.inf, np.inf))
    return reg


def fd1(f, x, h, side):
    """Richardson one-sided first derivative."""

    def g(h):
        if side > 0:
            return (-3 * f(np.array(x)) + 4 * f(np.array(x + h)) - f(np.array(x + 2 * h))) / (2 * h)
        return (3 * f(np.array(x)) - 4 * f(np.array(x - h)) + f(np.array(x - 2 * h))) / (2 * h)

    return float((4 * g(h / 2) - g(h)) / 3)


def fd2(f, x, h, side):
    if side > 0:
        return float((f(np.array(x + 2 * h)) - 2 * f(np.array(x + h)) + f(np.array(x))) / h**2)
    return float((f(np.array(x)) - 2 * f(np.array(x - h)) + f(np.array(x - 2 * h))) / h**2)


HS = (1e-1, 1e-2, 1e-3, 1e-4, 1e-5)


def jump1(f, x, towards_inside):
    """Relative jump of the first derivative at x: the smallest over several steps (a real
    discontinuity shows at every step; a step too coarse for a steep extrapolation, or so
    fine that the rounding of s dominates, shows only at that step)."""
    best = np.inf
    for h in HS:
        gi, go = fd1(f, x, h, towards_inside), fd1(f, x, h, -towards_inside)
        best = min(best, abs(gi - go) / (abs(gi) + 1e-300))
    return best


def jump2(f, x, towards_inside, xmid):
    best = np.inf
    for h in HS:
        ci, co = fd2(f, x, h, towards_inside), fd2(f, x, h, -towards_inside)
        cmid = abs(fd2(f, xmid, h, +1))
        best = min(best, abs(ci - co) / (abs(ci) + cmid + 1e-300))
    return best


def main():
    d, job = load_job()
    a = job["args"]
    rng = np.random.default_rng(int(a["seed"]))
    ntr = int(a["trials"])
    acc = Acc()
    refused = {}
    samples = []
    distinct = 0
    nexec = 0
    reg = make_region("wall.wall", 2, 5)
    for t in range(ntr):
        L = 10 ** rng.uniform(-1.5, 1.5)
        N = float(2 * int(rng.integers(1, 65)))
        Nn = float(rng.integers(4, 400))
        mean = L / (N / Nn)
        which = str(rng.choice(["monotonic", "sqrt:wall.X", "sqrt:X.wall", "sqrt:X.X", "sqrt:wall.wall", "sqrt:lower-only", "sqrt:upper-only", "linear"]))
        nexec += 1
        try:
            if which == "monotonic":
                dl = mean * 10 ** rng.uniform(-1, 1)
                du = mean * 10 ** rng.uniform(-1, 1)
                f = reg.getMonotonicPoloidalDistanceFunc(L, N, Nn, d_lower=dl, d_upper=du)
                kw = dict(d_lower=dl, d_upper=du)
            elif which == "linear":
                f = reg.getLinearPoloidalDistanceFunc(L, N)
                kw = {}
            else:
                aa = mean * np.sqrt(N / Nn) * 10 ** rng.uniform(-1.5, 0.3) / 2
                b = mean * 10 ** rng.uniform(-1.0, 0.5)
                if which == "sqrt:wall.X":
                    kw = dict(b_lower=b, a_lower=None, b_upper=0.0, a_upper=aa)
                elif which == "sqrt:X.wall":
                    kw = dict(b_lower=0.0, a_lower=aa, b_upper=b, a_upper=None)
                elif which == "sqrt:lower-only":
                    kw = dict(b_lower=b, a_lower=(aa if rng.random() < 0.5 else None))
                elif which == "sqrt:upper-only":
                    kw = dict(b_upper=b, a_upper=(aa if rng.random() < 0.5 else None))
                elif which == "sqrt:X.X":
                    kw = dict(b_lower=0.0, a_lower=aa, b_upper=0.0, a_upper=aa * 10 ** rng.uniform(-0.3, 0.3))
                else:
                    kw = dict(b_lower=b, a_lower=None, b_upper=b * 10 ** rng.uniform(-0.5, 0.5), a_upper=None)
                f = reg.getSqrtPoloidalDistanceFunc(L, N, Nn, **kw)
        except Exception as e:  # explicit refusal by the constructor
            k = which + ":" + type(e).__name__
            refused[k] = refused.get(k, 0) + 1
            continue
        params = {"L": L, "N": N, "N_norm": Nn, **{k: (None if v is None else float(v)) for k, v in kw.items()}}
        i = np.arange(0.0, N + 1)
        v = f(i.copy())
        acc.add("s(0)=0", which, abs(float(f(np.array(0.0)))) / L, 1e-9, where=params)
        acc.add("s(N)=L", which, abs(float(f(np.array(N))) - L) / L, 1e-9, where=params)
        mono = bool(np.all(np.diff(v) > 0))
        if not mono:
            # the bare constructors rely on the _checkMonotonic guard downstream: counted, decided below
            refused[which + ":non-monotone(bare constructor)"] = refused.get(which + ":non-monotone(bare constructor)", 0) + 1
            continue
        distinct += 1
        if len(samples) < 3:
            samples.append({"constructor": which, "params": params, "s": v[:5].tolist()})
        h = 1e-3
        # requested end gradients in units of the normalised index
        if which == "monotonic":
            acc.add("ds/diN(0)=d_lower", which, abs(fd1(f, 0.0, h, +1) * Nn / kw["d_lower"] - 1), 1e-3, where=params)
            acc.add("ds/diN(N)=d_upper", which, abs(fd1(f, N, h, -1) * Nn / kw["d_upper"] - 1), 1e-3, where=params)
        elif which.startswith("sqrt"):
            # ds/diN ~ a_lower/sqrt(iN) + b_lower at 0 and a_upper/sqrt(N/N_norm-iN) + b_upper at N:
            # subtract the analytic near-end sqrt term and differentiate what is left
            al = kw.get("a_lower") or 0.0
            au = kw.get("a_upper") or 0.0
            if kw.get("b_lower") is not None:

                def reg_lo(x, al=al):
                    x = np.asarray(x, float)
                    return f(x.copy()) - 2 * al * np.sqrt(np.maximum(x, 0) / Nn)

                g = fd1(reg_lo, 0.0, h, +1) * Nn
                acc.add("non-singular end gradient at 0 = b_lower", which, abs(g - kw["b_lower"]) / max(abs(kw["b_lower"]), mean), 2e-3, where=params)
            if kw.get("b_upper") is not None:

                def reg_up(x, au=au):
                    x = np.asarray(x, float)
                    return f(x.copy()) + 2 * au * np.sqrt(np.maximum(N - x, 0) / Nn)

                g = fd1(reg_up, N, h, -1) * Nn
                acc.add("non-singular end gradient at N = b_upper", which, abs(g - kw["b_upper"]) / max(abs(kw["b_upper"]), mean), 2e-3, where=params)
        # extrapolation branches (used for the boundary guard cells): value, gradient and
        # curvature continuous at i=0 / i=N as the docstrings promise
        lower_plain = which in ("monotonic", "sqrt:wall.X", "sqrt:wall.wall") or (which == "sqrt:upper-only")
        upper_plain = which in ("monotonic", "sqrt:X.wall", "sqrt:wall.wall") or (which == "sqrt:lower-only")
        if lower_plain:
            acc.add("extrapolation below 0: gradient continuous", which, jump1(f, 0.0, +1), 0.1, where=params)
            if which != "monotonic":
                acc.add("extrapolation below 0: curvature continuous", which, jump2(f, 0.0, +1, N / 2), 0.2, where=params, sig="curvature jump at i=0")
        if upper_plain:
            acc.add("extrapolation above N: gradient continuous", which, jump1(f, N, -1), 0.1, where=params)
            if which != "monotonic":
                acc.add("extrapolation above N: curvature continuous", which, jump2(f, N, -1, N / 2), 0.2, where=params, sig="curvature jump at i=N (general-branch upper_extrap)" if which in ("sqrt:wall.wall", "sqrt:X.wall") else "curvature jump at i=N")
    # ---- the guarded entry point: strictly increasing on the used index range, or an exception ----
    for t in range(max(30, ntr // 10)):
        guards = int(rng.integers(0, 4))
        ny = int(rng.integers(1, 33))
        kind = str(rng.choice(["wall.X", "X.wall", "X.X", "wall.wall"]))
        method = str(rng.choice(["sqrt", "monotonic", "linear"]))
        L = 10 ** rng.uniform(-1.5, 1.0)
        st = {
            "poloidal_spacing_method": method,
            "target_all_poloidal_spacing_length": float(L * 10 ** rng.uniform(-1.5, 1.0)),
            "xpoint_poloidal_spacing_length": float(L * 10 ** rng.uniform(-2.0, 0.5)),
            "nonorthogonal_target_all_poloidal_spacing_length": float(L * 10 ** rng.uniform(-1.0, 0.7)),
            "nonorthogonal_xpoint_poloidal_spacing_length": float(L * 10 ** rng.uniform(-1.0, 0.7)),
            "N_norm_prefactor": float(rng.choice([1.0, 0.5, 2.0])),
        }
        nexec += 1
        cls = "guarded:%s:%s" % (method, kind)
        try:
            r2 = make_region(kind, guards, ny, st)
            # what EquilibriumRegion.getRegridded does for the lower/upper extension
            r2.extend_lower = 2 * guards if kind.startswith("wall") else 0
            r2.extend_upper = 2 * guards if kind.endswith("wall") else 0
            npts = 2 * ny + 1
            f = r2.getSfuncFixedSpacing(npts, L)
        except Exception as e:
            k = cls + ":" + type(e).__name__
            refused[k] = refused.get(k, 0) + 1
            continue
        idx = np.arange(-r2.extend_lower, npts + r2.extend_upper, dtype=float)
        v = f(idx.copy())
        distinct += 1
        p = {"kind": kind, "guards": guards, "ny": ny, "L": L, **st}
        acc.add("getSfuncFixedSpacing: increasing on the used indices incl. guard range (or refused)", cls, 0.0 if np.all(np.diff(v) >= 0) else 1.0, 0.0, where=p)
        acc.add("getSfuncFixedSpacing: strictly increasing between the targets", cls, 0.0 if np.all(np.diff(f(np.arange(0.0, npts))) > 0) else 1.0, 0.0, where=p)
        # the end of each region kind is fed by the option documented for it: a wall end by the
        # target spacing length, an X-point end by the X-point spacing length (sqrt: as the
        # coefficient of the 1/sqrt term; monotonic: as the end gradient, non-orthogonal variants)
        Nn = st["N_norm_prefactor"] * 3 * ny
        N = float(npts - 1)
        h = 1e-3
        mean = L / (N / Nn)
        if method == "monotonic":
            for end, x0, side in (("lower", 0.0, +1), ("upper", N, -1)):
                at_wall = kind.split(".")[0 if end == "lower" else 1] == "wall"
                want = st["nonorthogonal_target_all_poloidal_spacing_length"] if at_wall else st["nonorthogonal_xpoint_poloidal_spacing_length"]
                g = fd1(f, x0, h, side) * Nn
                acc.add("getSfuncFixedSpacing(monotonic): %s end gradient = the option that feeds that end" % end, cls, abs(g / want - 1.0), 1e-3, where=dict(p, end=end, want=want, got=g), sig="%s end of a %s region gets %.4g instead of %.4g" % (end, kind, g, want))
        elif method == "sqrt":
            for end, x0, side in (("lower", 0.0, +1), ("upper", N, -1)):
                at_wall = kind.split(".")[0 if end == "lower" else 1] == "wall"
                a_want = 0.0 if at_wall else st["xpoint_poloidal_spacing_length"]
                b_want = st["target_all_poloidal_spacing_length"] if at_wall else 0.0
                dlt = 1e-6
                # s ~ s(x0) +- [2 a sqrt(d/N_norm) + b d/N_norm] at distance d from the end
                dv = abs(float(f(np.array(x0 + side * dlt))) - float(f(np.array(x0))))
                a_got = (dv - b_want * dlt / Nn) / (2 * np.sqrt(dlt / Nn))
                acc.add("getSfuncFixedSpacing(sqrt): %s end sqrt coefficient = the option that feeds that end" % end, cls, abs(a_got - a_want) / max(a_want, mean * np.sqrt(N / Nn)), 2e-3, where=dict(p, end=end, want=a_want, got=a_got), sig="%s end of a %s region: sqrt coefficient %.4g instead of %.4g" % (end, kind, a_got, a_want))
                if at_wall:

                    def reg(x, a=a_want):
                        return f(np.asarray(x, float).copy())

                    g = fd1(reg, x0, h, side) * Nn
                    # the far end's sqrt term contributes a finite gradient here only through d, already in b
                    acc.add("getSfuncFixedSpacing(sqrt): wall end gradient = target spacing length", cls, abs(g - b_want) / max(b_want, mean), 2e-3, where=dict(p, end=end, want=b_want, got=g))
        if np.any(np.diff(v) == 0):
            refused[cls + ":saturated guard cells (zero width; refused later by the hy>0 guard)"] = refused.get(cls + ":saturated guard cells (zero width; refused later by the hy>0 guard)", 0) + 1
        acc.add("getSfuncFixedSpacing: s(0)=0", cls, abs(float(f(np.array(0.0)))) / L, 1e-9, where=p)
        acc.add("getSfuncFixedSpacing: s(last)=L", cls, abs(float(f(np.array(float(npts - 1)))) - L) / L, 1e-9, where=p)
    out = {"records": acc.records(), "executions": nexec, "distinct": distinct, "samples": samples, "refused": refused}
    write_out(d, out)


if __name__ == "__main__":
    main()
