"""C09 unit drive: contracts on getSmoothMonotonicGridFunc / make1dGrid over seeded
random parameters covering all five analytic branches and both sides of each switch."""

import warnings

import numpy as np

from .common import Acc, load_job, minimal_equilibrium, write_out

warnings.simplefilter("ignore")


def branch(n, lo, up, gl, gu):
    d = abs(up - lo)
    if gl is None and gu is None:
        return "linear"
    if gu is None:
        return "lower-increasing" if abs(gl * n) < d * (1 + 1e-8) else "lower-decreasing(erf)"
    if gl is None:
        return "upper-increasing" if abs(gu * n) < d * (1 + 1e-8) else "upper-decreasing(erf)"
    return "both-increasing" if 0.5 * abs(gl + gu) * n < d * (1 + 1e-8) else "both-decreasing(sici)"


def curv_ratio(f, n, x0, sgn, h):
    """|one-sided second difference at x0| / h^2, relative to the largest interior
    second derivative (estimated with the same step on 41 points)."""
    s2 = abs(float(f(x0 + sgn * 2 * h)) - 2 * float(f(x0 + sgn * h)) + float(f(x0))) / h**2
    hm = 0.02 * n
    smax = max(abs(float(f(x + hm)) - 2 * float(f(x)) + float(f(x - hm))) / hm**2 for x in np.linspace(hm, n - hm, 41))
    return s2 / max(smax, 1e-300)


def main():
    d, job = load_job()
    a = job["args"]
    rng = np.random.default_rng(int(a["seed"]))
    ntr = int(a["trials"])
    eq = minimal_equilibrium()
    acc = Acc()
    refused = {}
    samples = []
    distinct = 0
    nexec = 0
    for trial in range(ntr):
        n = int(rng.integers(1, 65))
        lo = float(rng.normal())
        up = lo + float(rng.choice([-1, 1])) * 10 ** float(rng.uniform(-3, 1))
        mean = (up - lo) / n
        kind = int(rng.integers(0, 4))
        wide = rng.random() < 0.15  # ratios 4..20: only "monotone or refused" is claimed
        ex = (0.6, 1.3) if wide else (-1.3, 0.6)
        gl = mean * 10 ** float(rng.uniform(*ex)) if kind in (1, 3) else None
        gu = mean * 10 ** float(rng.uniform(*ex)) if kind in (2, 3) else None
        b = branch(n, lo, up, gl, gu) + ("|wide" if wide else "")
        nexec += 1
        params = {"n": n, "lower": lo, "upper": up, "grad_lower": gl, "grad_upper": gu}
        try:
            f = eq.getSmoothMonotonicGridFunc(n, lo, up, grad_lower=gl, grad_upper=gu)
            v = np.array([float(f(x)) for x in np.linspace(0, n, 2 * n + 1)])
        except Exception as e:
            refused[b + ":" + type(e).__name__] = refused.get(b + ":" + type(e).__name__, 0) + 1
            continue
        distinct += 1
        if len(samples) < 3:
            samples.append({"params": params, "branch": b, "faces": v[::2][:6].tolist()})
        R = abs(up - lo)
        mono = np.all(np.diff(v) * np.sign(up - lo) > 0)
        # distance of the parameters from the branch switch (ratio of the gradient-implied
        # change to the requested change = 1): just above it the erf/sici branches lose digits
        if gl is not None and gu is not None:
            sw = abs(0.5 * abs(gl + gu) * n / R - 1.0)
        elif gl is not None or gu is not None:
            sw = abs(abs((gl if gl is not None else gu) * n) / R - 1.0)
        else:
            sw = 1.0
        if sw < 1e-3 and not wide:
            acc.add("near a branch switch (|ratio-1|<1e-3): end values and monotonicity, loose bound", b + "|near-switch", max(abs(v[0] - lo), abs(v[-1] - up)) / R / 2e-4 + (0.0 if mono else 1.0), 1.0, where=params)
            continue
        if wide:
            # erf saturates: equal consecutive faces are turned into an explicit error by make1dGrid
            try:
                g1 = eq.make1dGrid(n, f)
                ok = bool(np.all(np.diff(g1) > 0) or np.all(np.diff(g1) < 0))
            except ValueError:
                ok = True  # explicit refusal
                refused[b + ":make1dGrid"] = refused.get(b + ":make1dGrid", 0) + 1
            acc.add("grid strictly monotone or refused by make1dGrid", b, 0.0 if ok else 1.0, 0.0, where=params)
            continue
        acc.add("f(0)=lower", b, abs(v[0] - lo) / R, 1e-9, where=params)
        acc.add("f(n)=upper", b, abs(v[-1] - up) / R, 1e-9, where=params)
        acc.add("strictly monotone on the half-integer lattice", b, 0.0 if mono else 1.0, 0.0, where=params)
        h = 0.05
        mid2 = max(abs(float(f(n / 2 + h)) - 2 * float(f(n / 2)) + float(f(n / 2 - h))), 1e-300)
        hh = 1e-4
        if gl is not None:
            def g_lo(h_):
                return (-3 * float(f(0.0)) + 4 * float(f(h_)) - float(f(2 * h_))) / (2 * h_)

            # the smallest error over several steps: a coarse step does not resolve the boundary layer of
            # the squashed branches, a fine one is limited by the evaluation noise of the special functions
            # (1e-12 against a requested gradient of 1e-4); a wrong gradient shows at every step
            eg = min(abs(g_lo(h_) / gl - 1) for h_ in (1e-2, 1e-3, 1e-4, 1e-5))
            acc.add("gradient at the lower end = requested", b, eg, 1e-4, where=params)
            rs = [curv_ratio(f, n, 0.0, +1, hh_ * n) for hh_ in (1e-2, 1e-3, 1e-4, 3e-5)]
            acc.add("second derivative vanishes at the constrained lower end", b, rs[-1] / 0.2, 1.0, where=dict(params, ratios=rs), note="one-sided second difference over [0,2h]/h^2 relative to max|f''| at h=3e-5*n (the squashed branches have a boundary layer that coarser steps cannot resolve); must be <=0.2")
        if gu is not None:
            def g_up(h_):
                return (3 * float(f(float(n))) - 4 * float(f(n - h_)) + float(f(n - 2 * h_))) / (2 * h_)

            eg = min(abs(g_up(h_) / gu - 1) for h_ in (1e-2, 1e-3, 1e-4, 1e-5))
            acc.add("gradient at the upper end = requested", b, eg, 1e-4, where=params)
            rs = [curv_ratio(f, n, float(n), -1, hh_ * n) for hh_ in (1e-2, 1e-3, 1e-4, 3e-5)]
            acc.add("second derivative vanishes at the constrained upper end", b, rs[-1] / 0.2, 1.0, where=dict(params, ratios=rs))
        # make1dGrid: faces = f(i), centres = mid-points
        try:
            g1 = eq.make1dGrid(n, f)
            acc.add("make1dGrid faces=f(i)", b, float(np.abs(g1[::2] - v[::2]).max()) / R, 0.0, where=params)
            acc.add("make1dGrid centres=face mid-points", b, float(np.abs(g1[1::2] - 0.5 * (g1[:-1:2] + g1[2::2])).max()) / R, 1e-15, where=params)
            acc.add("make1dGrid strictly monotone", b, 0.0 if (np.all(np.diff(g1) > 0) or np.all(np.diff(g1) < 0)) else 1.0, 0.0, where=params)
        except ValueError:
            refused[b + ":make1dGrid"] = refused.get(b + ":make1dGrid", 0) + 1
        # nesting under doubling (gradients per index halve)
        try:
            f2 = eq.getSmoothMonotonicGridFunc(2 * n, lo, up, grad_lower=None if gl is None else gl / 2, grad_upper=None if gu is None else gu / 2)
            v2 = np.array([float(f2(2 * x)) for x in range(n + 1)])
            acc.add("faces nest under doubling of n", b, float(np.abs(v2 - v[::2]).max()) / R, 1e-9, where=params)
        except Exception as e:
            refused[b + ":nest:" + type(e).__name__] = refused.get(b + ":nest:" + type(e).__name__, 0) + 1
    # ---- continuity in the parameters across each branch switch --------------------------
    nblip = 0
    wblip = 0.0
    for trial in range(max(20, ntr // 20)):
        n = int(rng.integers(2, 40))
        lo = 0.3
        up = lo + float(rng.choice([-1, 1])) * float(rng.uniform(0.1, 2))
        mean = (up - lo) / n
        r = float(rng.uniform(0.3, 1.7))
        for kind in ("lower", "upper", "both"):
            for delta in (1e-2, 1e-3):
                outs = []
                for eps in (-delta, delta):
                    if kind == "lower":
                        gl, gu = mean * (1 + eps), None
                    elif kind == "upper":
                        gl, gu = None, mean * (1 + eps)
                    else:
                        gl = mean * r
                        gu = 2 * mean * (1 + eps) - gl
                    nexec += 1
                    try:
                        f = eq.getSmoothMonotonicGridFunc(n, lo, up, grad_lower=gl, grad_upper=gu)
                        outs.append(np.array([float(f(x)) for x in np.linspace(0, n, 2 * n + 1)]))
                    except Exception as e:
                        refused["switch-" + kind + ":" + type(e).__name__] = refused.get("switch-" + kind + ":" + type(e).__name__, 0) + 1
                if len(outs) == 2:
                    acc.add("continuous across the branch switch (threshold*(1 +- delta))", "switch-" + kind, float(np.abs(outs[0] - outs[1]).max()) / abs(up - lo) / delta, 20.0, where={"n": n, "upper": up, "delta": delta, "r": r})
            # the immediate neighbourhood above the switch loses digits: report + loose bound
            for eps in (1e-7, 1e-6, 1e-5):
                if kind == "lower":
                    gl, gu = mean * (1 + eps), None
                elif kind == "upper":
                    gl, gu = None, mean * (1 + eps)
                else:
                    gl = gu = mean * (1 + eps)
                nexec += 1
                try:
                    f = eq.getSmoothMonotonicGridFunc(n, lo, up, grad_lower=gl, grad_upper=gu)
                    v = np.array([float(f(x)) for x in np.linspace(0, n, 2 * n + 1)])
                    lin = np.linspace(lo, up, 2 * n + 1)
                    dev = float(np.abs(v - lin).max()) / abs(up - lo)
                    if dev > 1e-5:
                        nblip += 1
                    wblip = max(wblip, dev)
                    acc.add("just above the switch: deviation from the limiting (uniform) grid", "switch-" + kind, dev, 2e-4, where={"n": n, "eps": eps})
                except Exception as e:
                    refused["near-switch-" + kind + ":" + type(e).__name__] = refused.get("near-switch-" + kind + ":" + type(e).__name__, 0) + 1
    out = {
        "records": acc.records(),
        "executions": nexec,
        "distinct": distinct,
        "samples": samples,
        "refused": refused,
        "near_switch_blips": {"count": nblip, "largest": wblip},
    }
    write_out(d, out)


if __name__ == "__main__":
    main()
