"""C14 in-process experiments: determinism of two builds, no mutation of the caller's
arrays, independence from earlier builds in the same interpreter, and the
CLI -> recreate-inputs -> CLI loop."""

import os
import shutil
import sys
import tempfile
import warnings

import numpy as np

from .. import build, families, runcase
from .common import Acc, load_job, write_out
from .pair_compare import mode_identical

warnings.simplefilter("ignore")


def gen(spec, workdir, tag):
    os.makedirs(workdir, exist_ok=True)
    with build.quiet():
        eq, mesh, fam, inp = build.build_tok(spec, workdir)
        mesh.geometry()
        p = os.path.join(workdir, tag + ".nc")
        mesh.writeGridfile(p)
    return runcase.load_nc(p), eq, mesh


def main():
    d, job = load_job()
    a = job["args"]
    acc = Acc()
    mode = a["mode"]
    spec = a["spec"]
    work = tempfile.mkdtemp(prefix="c14_", dir=d)
    samples = [{"mode": mode, "spec": spec}]
    nexec = 0
    inconclusive = []
    try:
        if mode == "twice":
            res = []
            for tag in ("a", "b"):
                try:
                    res.append(gen(spec, work, tag)[0])
                except Exception as e:  # noqa: BLE001
                    res.append(e)
            nexec = 2
            if any(isinstance(r, Exception) for r in res):
                # the corpus builds this spec (serially): a build that raises here is not repeatable
                acc.add("the same spec builds both times", "same spec twice in one process", 1.0, 0, sig="; ".join("%s: %s" % (type(r).__name__, str(r)[:80]) for r in res if isinstance(r, Exception)), where={"np": spec.get("np")})
                raise StopIteration
            ncA, ncB = res
            mode_identical(acc, "same spec twice in one process", spec, spec, ncA, ncB)
            acc.add("grid_id differs between files (unique id)", "same spec twice in one process", 0.0 if ncA["__attrs__"].get("grid_id") != ncB["__attrs__"].get("grid_id") else 1.0, 0)
        elif mode == "after_other":
            other = a["other"]
            ncRef, _, _ = gen(spec, work, "ref_first")  # B alone, fresh interpreter state
            # cannot un-import; so: build A then B in THIS process and compare with a B built in a
            # fresh process (the cached case of the same spec)
            gen(other, work, "other")
            ncB, _, _ = gen(spec, work, "b_after_a")
            nexec = 3
            mode_identical(acc, "build after an unrelated build", spec, spec, ncRef, ncB)
        elif mode == "inputs":
            # the caller's arrays must not be modified; run once comparing copies and once with
            # read-only arrays so that an in-place write raises at the offending line
            from hypnotoad import tokamak

            fam = build.family_of(spec)
            inp = build.tok_inputs(spec, fam)
            opts = dict(spec.get("opts", {}))
            keep = {k: (None if v is None else np.array(v, copy=True)) for k, v in inp.items() if k != "wall"}
            wall_keep = None if inp["wall"] is None else list(inp["wall"])
            nexec += 1
            with build.quiet():
                tokamak.TokamakEquilibrium(inp["R1D"], inp["Z1D"], inp["psi2D"], inp["psi1D"], inp["fpol1D"], pressure=inp["pressure"], wall=inp["wall"], settings=dict(opts), nonorthogonal_settings=dict(opts), make_regions=False)
            cls = "options: " + ",".join(k for k in ("reverse_current", "psi_divide_twopi", "reverse_Bt", "extrapolate_profiles") if opts.get(k)) if any(opts.get(k) for k in ("reverse_current", "psi_divide_twopi", "reverse_Bt", "extrapolate_profiles")) else "options: none"
            changed = [k for k in keep if keep[k] is not None and not np.array_equal(keep[k], inp[k])]
            acc.add("caller's input arrays unchanged after construction", cls, len(changed), 0, sig="modified in place: " + ",".join(changed) if changed else None, where={"opts": opts})
            acc.add("caller's wall list unchanged", cls, 0.0 if wall_keep == (None if inp["wall"] is None else list(inp["wall"])) else 1.0, 0)
            # read-only second run
            inp2 = build.tok_inputs(spec, fam)
            for k, v in inp2.items():
                if isinstance(v, np.ndarray):
                    v.setflags(write=False)
            nexec += 1
            try:
                with build.quiet():
                    tokamak.TokamakEquilibrium(inp2["R1D"], inp2["Z1D"], inp2["psi2D"], inp2["psi1D"], inp2["fpol1D"], pressure=inp2["pressure"], wall=inp2["wall"], settings=dict(opts), nonorthogonal_settings=dict(opts), make_regions=False)
                acc.add("construction works with read-only input arrays", cls, 0.0, 0)
            except ValueError as e:
                import traceback

                tb = traceback.extract_tb(e.__traceback__)
                site = next((f for f in reversed(tb) if "hypnotoad" in f.filename), tb[-1])
                acc.add("construction works with read-only input arrays", cls, 1.0, 0, sig="in-place write at %s:%d `%s`" % (os.path.basename(site.filename), site.lineno, (site.line or "")[:60]))
        elif mode == "cli_loop":
            import yaml

            fam = build.family_of(dict(spec, via="geqdsk"))
            inp = build.tok_inputs(spec, fam)
            g1 = os.path.join(work, "run1")
            os.makedirs(g1)
            gfile = os.path.join(g1, "input.geqdsk")
            build.write_geqdsk_file(gfile, inp, fam)
            opts = dict(spec.get("opts", {}))
            yml = os.path.join(g1, "opts.yaml")
            with open(yml, "w") as f:
                yaml.safe_dump(opts, f)
            nexec += 1
            with build.quiet():
                build.run_cli_geqdsk(gfile, yml, g1)
            nc1 = runcase.load_nc(os.path.join(g1, "bout.grd.nc"))
            # embedded inputs
            ytxt = nc1["__strings__"].get("hypnotoad_inputs_yaml")
            gtxt = nc1["__strings__"].get("hypnotoad_input_geqdsk_file_contents")
            cls = "cli loop"
            try:
                loaded = yaml.safe_load(ytxt)
                acc.add("embedded option set loads with yaml.safe_load", cls, 0.0 if isinstance(loaded, dict) and len(loaded) > 50 else 1.0, 0, sig="%d keys" % (len(loaded) if isinstance(loaded, dict) else -1))
            except Exception as e:
                loaded = None
                acc.add("embedded option set loads with yaml.safe_load", cls, 1.0, 0, sig="%s: %s" % (type(e).__name__, str(e)[:100]))
            with open(gfile) as f:
                acc.add("embedded geqdsk text is byte-exact", cls, 0.0 if f.read() == gtxt else 1.0, 0)
            if loaded is not None:
                for k, v in opts.items():
                    acc.add("embedded options contain the evaluated user settings", cls, 0.0 if loaded.get(k) == v else 1.0, 0, sig="%s: %r vs %r" % (k, loaded.get(k), v))
            # recreate inputs with the real script, then run the CLI again
            g2 = os.path.join(work, "run2")
            os.makedirs(g2)
            from hypnotoad.scripts import hypnotoad_recreate_inputs

            old_argv, old_cwd = sys.argv, os.getcwd()
            sys.argv = ["hypnotoad-recreate-inputs", os.path.join(g1, "bout.grd.nc"), "-g", "re.geqdsk", "-y", "re.yaml"]
            os.chdir(g2)
            try:
                hypnotoad_recreate_inputs.main()
            finally:
                sys.argv = old_argv
                os.chdir(old_cwd)
            nexec += 1
            try:
                with build.quiet():
                    build.run_cli_geqdsk(os.path.join(g2, "re.geqdsk"), os.path.join(g2, "re.yaml"), g2)
                nc2 = runcase.load_nc(os.path.join(g2, "bout.grd.nc"))
                mode_identical(acc, "cli loop: regenerated from the embedded inputs", spec, spec, nc1, nc2)
            except BaseException as e:  # noqa: BLE001
                acc.add("CLI accepts the inputs recreated from its own grid file", cls, 1.0, 0, sig="%s: %s" % (type(e).__name__, str(e)[:200]))
    except StopIteration:
        pass
    except BaseException as e:  # noqa: BLE001
        import traceback

        inconclusive.append("experiment '%s' raised %s: %s" % (mode, type(e).__name__, traceback.format_exc()[-400:]))
    shutil.rmtree(work, ignore_errors=True)
    write_out(d, {"records": acc.records(), "executions": nexec, "distinct": 1 if acc.w else 0, "samples": samples, "inconclusive": inconclusive})


if __name__ == "__main__":
    main()
    # worker processes of a ParallelMap that raised may still be alive: do not wait for them
    sys.stdout.flush()
    os._exit(0)
