"""C19 unit drive: critical points found, classified, ordered and selected correctly."""

import os
import signal
import sys
import warnings

import numpy as np

from .. import families
from .common import Acc, load_job, write_out

warnings.simplefilter("ignore")


def quiet_call(fn, *a, **k):
    old = sys.stdout
    sys.stdout = open(os.devnull, "w")
    try:
        return fn(*a, **k)
    finally:
        sys.stdout.close()
        sys.stdout = old


TRIAL_LIMIT_S = 600


class TrialTimeout(BaseException):
    pass


def _on_alarm(signum, frame):
    raise TrialTimeout()


def main():
    signal.signal(signal.SIGALRM, _on_alarm)
    abandoned = []
    d, job = load_job()
    a = job["args"]
    rng = np.random.default_rng(int(a["seed"]))
    from hypnotoad.cases import tokamak
    from hypnotoad.utils import critical

    acc = Acc()
    samples = []
    nexec = 0
    distinct = 0
    for t in range(int(a["trials"])):
        # a generous per-trial watchdog: one input on which the code under test does not come back
        # must not hide what the other inputs of this shard show (abandoned trials -> inconclusive)
        signal.alarm(TRIAL_LIMIT_S)
        try:
            nR = int(rng.choice([33, 49, 65, 97, 129]))
            nZ = int(rng.choice([33, 65, 97]))
            topo = str(rng.choice(["lsn", "usn", "cdn", "ldn", "udn", "udn2", "pair", "pair"]))
            if t % 5 == 0:
                topo = "pair"  # every shard drives the diagonal, strongly anisotropic saddle
            if topo == "pair":
                # two equal blobs at a random angle: the saddle between them has principal axes along /
                # across that direction and a curvature ratio that grows with the separation
                wq = float(rng.uniform(0.18, 0.22))
                sep = float(rng.uniform(2.3, 3.6)) * wq
                ang = float(rng.uniform(0, 2 * np.pi))
                if t % 5 == 0:
                    # principal axes near 45 degrees from R/Z, curvature ratio 2(a/w)^2-1 > 3.5
                    sep = float(rng.uniform(3.1, 3.6)) * wq
                    ang = float(np.radians(45.0 + 90.0 * int(rng.integers(0, 4)) + rng.uniform(-12, 12)))
                cR, cZ = 1.5 + float(rng.uniform(-0.02, 0.02)), float(rng.uniform(-0.02, 0.02))
                # the first blob sits nearest the domain centre (primary O-point)
                cen = [[cR, cZ, 1.0, wq], [cR + sep * np.cos(ang), cZ + sep * np.sin(ang), 1.0, wq]]
                # "all input resolutions above a minimum": at least five points per blob width (h <= 0.2 w)
                nR = int(rng.choice([65, 97, 129]))
                nZ = int(rng.choice([65, 97]))
                e_ = {"topo": "custom", "centres": cen, "s": float(rng.choice([-1, 1])), "nR": nR, "nZ": nZ, "Rlim": [0.6, 2.4], "Zlim": [-0.9, 0.9], "angle_deg": float(np.degrees(ang))}
            elif t % 7 == 3:
                # a disconnected double null with a small opposite-sign dip inboard of the axis: a second
                # O-point that the scan meets first and whose psi lies on the other side of the X-points
                topo = "ldn"
                eps_ = float(rng.uniform(0.004, 0.01))
                r0 = 1.5 + float(rng.uniform(-0.01, 0.01))
                e_ = {"topo": "custom", "centres": [[r0, 0.0, 1.0, 0.3], [r0, -0.6, 1.0, 0.3], [r0, 0.6 + eps_, 1.0, 0.3], [1.17, float(rng.uniform(-0.03, 0.03)), -0.45, 0.07]], "s": float(rng.choice([-1, 1])), "nR": int(rng.choice([97, 129])), "nZ": int(rng.choice([97, 129])), "Zlim": [-0.9, 0.9], "extra_dip": True}
            else:
                e_ = None
            e_ = e_ or {"topo": topo, "s": float(rng.choice([-1, 1])), "nR": nR, "nZ": nZ, "shift": [float(rng.uniform(-0.03, 0.03)), float(rng.uniform(-0.03, 0.03))], "w": float(rng.uniform(0.28, 0.32)), "a2": float(rng.uniform(0.9, 1.1)), "eps": float(rng.uniform(0.001, 0.02)), "Zlim": [-0.9, 0.9]}
            fam = families.GaussFamily(e_)
            R1D, Z1D, psi2D, psi1D, fpol1D, pres = fam.arrays()
            R2, Z2 = np.meshgrid(R1D, Z1D, indexing="ij")
            orO, orX = fam.critical_points()
            hgrid = max(R1D[1] - R1D[0], Z1D[1] - Z1D[0])
            # searched interior: find_critical scans i in 2..n-3
            def interior(p):
                return R1D[2] <= p[0] <= R1D[-3] and Z1D[2] <= p[1] <= Z1D[-3]

            orO_i = [p for p in orO if interior(p)]
            orX_i = [p for p in orX if interior(p)]
            # scope restriction: X-points hidden behind a secondary O-point are dropped by design
            prim = orO_i[0] if orO_i else None
            nexec += 1
            op, xp = quiet_call(critical.find_critical, R2, Z2, psi2D, 1e-6, 1000)
            cls = "find_critical|%s|%s" % ((topo + "+inboard dip") if e_.get("extra_dip") else topo if topo != "pair" else "pair(diagonal)" if 20 < (e_["angle_deg"] % 90) < 70 else "pair(axis-aligned)", "s+" if e_["s"] > 0 else "s-")
            where = dict(e_)
            distinct += 1
            if len(samples) < 2:
                samples.append({"family": e_, "oracle_O": orO_i, "oracle_X": orX_i, "code_O": [list(map(float, p)) for p in op], "code_X": [list(map(float, p)) for p in xp]})

            def visible(x):
                # monotone psi along the straight line from the primary O-point (the code's filter)
                rr = np.linspace(prim[0], x[0], 200)
                zz = np.linspace(prim[1], x[1], 200)
                pl = fam.psi(rr, zz)
                if x[2] < prim[2]:
                    pl = -pl
                return bool(np.all(np.diff(pl) > -1e-3 * (pl.max() - pl.min())))

            orX_v = [x for x in orX_i if visible(x)]
            acc.add("number of O-points found = analytic", cls, abs(len(op) - len(orO_i)), 0, where=where, sig="code %d oracle %d" % (len(op), len(orO_i)))
            acc.add("number of X-points found = analytic (adjacent to the primary O-point)", cls, abs(len(xp) - len(orX_v)), 0, where=where, sig="code %d oracle %d" % (len(xp), len(orX_v)))
            for code, orc, nm in ((op, orO_i, "O"), (xp, orX_v, "X")):
                for c in code:
                    if not orc:
                        continue
                    dd = min(np.hypot(c[0] - q[0], c[1] - q[1]) for q in orc)
                    acc.add("%s-point position (units of the input spacing)" % nm, cls, dd / hgrid, 0.05, where=where)
                # each analytic point returned exactly once
                for q in orc:
                    k = sum(1 for c in code if np.hypot(c[0] - q[0], c[1] - q[1]) < 0.5 * hgrid)
                    acc.add("each %s-point returned exactly once" % nm, cls, abs(k - 1), 0, where=where)
            if op and orO_i:
                acc.add("primary O-point = the one nearest the domain centre", cls, np.hypot(op[0][0] - orO_i[0][0], op[0][1] - orO_i[0][1]) / hgrid, 0.05, where=where)
                pa = op[0][2]
                order = [abs(x[2] - pa) for x in xp]
                acc.add("X-points ordered by |psi - psi_axis|", cls, 0.0 if all(order[i] <= order[i + 1] for i in range(len(order) - 1)) else 1.0, 0, where=where)
            # gradient vanishes at the returned points to the requested tolerance (Bp^2 < atol)
            for c in list(op) + list(xp):
                gR, gZ = fam.grad(c[0], c[1])
                hRR, hRZ, hZZ = fam.hess(c[0], c[1])
                Hm = max(abs(hRR), abs(hRZ), abs(hZZ))
                # the code stops at spline Bp^2 < 1e-6; at that point the analytic gradient is at most
                # |Hessian| x (position error <= 0.05 h) away from zero
                thr = 1e-5 + (1.5 * Hm * 0.05 * hgrid / c[0]) ** 2
                acc.add("|Bp|^2 at returned points small (analytic gradient; bound from the position accuracy)", cls, (gR**2 + gZ**2) / c[0] ** 2, thr, where=where)
            # ---- single/double-null decision and leg labelling --------------------------------
            if topo in ("ldn", "udn", "udn2", "cdn", "lsn", "usn") and len(orX_v) >= 1 and nR >= 49:
                pa_, pb_ = fam.psi_axis, fam.psi_bdry
                pn2 = (orX_v[1][2] - pa_) / (pb_ - pa_) if len(orX_v) > 1 else None
                trials_ = [(x, False) for x in ([pn2 - 0.004, pn2 + 0.004] if (pn2 is not None and 1.008 < pn2 < 1.15) else [1.2])]
                if pn2 is not None and 1.008 < pn2 < 1.15:
                    # the same two SOL edges given as the number psi_sol (which overrides psinorm_sol),
                    # with psinorm_sol set on the OTHER side of the second X-point
                    trials_ += [(pn2 - 0.004, True), (pn2 + 0.004, True)]
                for trial_sol, as_psi in trials_:
                    opts = dict(families.BASE)
                    opts.update(psinorm_sol=float(trial_sol), nx_inter_sep=1 if pn2 is not None else 0)
                    if as_psi:
                        ps_ = float(pa_ + trial_sol * (pb_ - pa_))
                        opts.update(psinorm_sol=float(2 * pn2 - trial_sol), psi_sol=ps_, psi_sol_inner=ps_)
                    wall = families.make_wall({"kind": "box"})
                    nexec += 1
                    try:
                        eq = quiet_call(tokamak.TokamakEquilibrium, R1D, Z1D, psi2D.copy(), psi1D.copy(), fpol1D.copy(), wall=wall, settings=opts)
                    except Exception as ex:
                        acc.add("equilibrium with regions builds or refuses", "decision|refused", 0.0, 0.0, where=dict(where, psinorm_sol=trial_sol, exc=repr(ex)[:100]))
                        continue
                    inside = [x for x in orX_v if 1.2 < x[0] < 1.8 and -0.5 < x[1] < 0.5]
                    exp_n = sum(1 for x in inside if (x[2] - pa_) / (pb_ - pa_) < trial_sol)
                    cls2 = "decision|%s%s" % ("double" if exp_n == 2 else "single", "|SOL edge given as psi_sol" if as_psi else "")
                    acc.add("single/double null by X-points inside the wall and within psinorm_sol", cls2, abs(len(eq.x_points) - exp_n), 0, where=dict(where, psinorm_sol=trial_sol), sig="code %d oracle %d" % (len(eq.x_points), exp_n))
                    acc.add("psi_axis / psi_bdry of the equilibrium", cls2, max(abs(eq.psi_axis - pa_), abs(eq.psi_bdry - pb_)) / abs(pb_ - pa_), 1e-3 * (33.0 / min(nR, nZ)) ** 2, where=where)
                    # legs: inner strike point has the smaller major radius; first/last region point order
                    for name, r in eq.regions.items():
                        if "divertor" not in name:
                            continue
                        pts = r.points
                        # the end that sits on the wall
                        ends = [pts[0], pts[-1]]
                        from .. import exactgeom as xg

                        dw = [xg.dist_point_polyline((p.R, p.Z), wall + [wall[0]]) for p in ends]
                        strike = ends[int(np.argmin(dw))]
                        other = [rr for nn, rr in eq.regions.items() if "divertor" in nn and nn != name and (("lower" in nn) == ("lower" in name))]
                        if other:
                            o = other[0]
                            oe = [o.points[0], o.points[-1]]
                            ow = [xg.dist_point_polyline((p.R, p.Z), wall + [wall[0]]) for p in oe]
                            ostrike = oe[int(np.argmin(ow))]
                            ok = (strike.R < ostrike.R) == ("inner" in name)
                            acc.add("legs labelled inner/outer by major radius of their strike points", cls2, 0.0 if ok else 1.0, 0, where=dict(where, region=name))
                        acc.add("leg strike point lies on the wall", cls2, min(dw), 1e-6, where=dict(where, region=name))
        except TrialTimeout:
            abandoned.append(t)
        finally:
            signal.alarm(0)
    inconclusive = ["%d trial(s) abandoned after %d s each (normal: a few seconds): %s" % (len(abandoned), TRIAL_LIMIT_S, abandoned[:5])] if abandoned else []
    write_out(d, {"records": acc.records(), "executions": nexec, "distinct": distinct, "samples": samples, "inconclusive": inconclusive})


if __name__ == "__main__":
    main()
