"""C18 unit drive: psi interpolation reproduces the data; the exposed derived fields are
mutually consistent derivatives of that one interpolant."""

import os
import sys
import warnings

import numpy as np

from .. import families
from .common import Acc, load_job, write_out

warnings.simplefilter("ignore")


def fdR(f, R, Z, h):
    return (4 * (f(R + h / 2, Z) - f(R - h / 2, Z)) / h - (f(R + h, Z) - f(R - h, Z)) / (2 * h)) / 3


def fdZ(f, R, Z, h):
    return (4 * (f(R, Z + h / 2) - f(R, Z - h / 2)) / h - (f(R, Z + h) - f(R, Z - h)) / (2 * h)) / 3


def main():
    d, job = load_job()
    a = job["args"]
    rng = np.random.default_rng(int(a["seed"]))
    from hypnotoad.cases import tokamak
    from hypnotoad.core.multilocationarray import MultiLocationArray

    acc = Acc()
    samples = []
    nexec = 0
    distinct = 0
    for t in range(int(a["trials"])):
        nR = int(rng.choice(a.get("sizes", [17, 25, 33, 49, 65])))
        nZ = int(rng.choice(a.get("sizes", [17, 25, 33, 49, 65])))
        if nR == nZ:
            nZ += 8
        e_ = {"topo": str(rng.choice(["lsn", "usn", "cdn", "ldn"])), "s": float(rng.choice([-1, 1])), "fs": float(rng.choice([-1, 1])), "nR": nR, "nZ": nZ, "shift": [float(rng.uniform(-0.01, 0.01)), float(rng.uniform(-0.01, 0.01))], "prof": "exp", "zoff": float(rng.choice([0.0, 1.8, -2.6])), "scale": float(rng.choice([1.0, 0.5, 3.0]))}
        if t == 0:
            e_.update(zoff=1.8, scale=1.0)  # every shard reaches the class max(Z) > max(R)
        fam = families.GaussFamily(e_)
        R1D, Z1D, psi2D, psi1D, fpol1D, pres = fam.arrays()
        R2, Z2 = np.meshgrid(R1D, Z1D, indexing="ij")
        eqs = {}
        for m in ("spline", "dct"):
            nexec += 1
            old = sys.stdout
            sys.stdout = open(os.devnull, "w")
            try:
                eq = tokamak.TokamakEquilibrium(R1D, Z1D, psi2D.copy(), psi1D.copy(), fpol1D.copy(), pressure=pres.copy(), make_regions=False, settings={"psi_interpolation_method": m})
            finally:
                sys.stdout.close()
                sys.stdout = old
            eqs[m] = eq
            distinct += 1
            cls = "%s|psi1D %s|%dx%d" % (m, "increasing" if psi1D[-1] > psi1D[0] else "decreasing", 1 if nR <= 33 else 2, 1 if nZ <= 33 else 2)
            cls = "%s|psi1D %s" % (m, "increasing" if psi1D[-1] > psi1D[0] else "decreasing")
            if max(Z1D) > max(R1D):
                cls += "|max(Z)>max(R)"
            where = dict(e_, method=m)
            if len(samples) < 2:
                samples.append(where)
            sc = float(np.abs(psi2D).max())
            acc.add("interpolant reproduces the input at the nodes", cls, float(np.abs(eq.psi(R2, Z2) - psi2D).max()) / sc, 1e-12, where=where)
            # interior evaluation points (10% margin)
            lo = [R1D[0] + 0.1 * (R1D[-1] - R1D[0]), Z1D[0] + 0.1 * (Z1D[-1] - Z1D[0])]
            hi = [R1D[-1] - 0.1 * (R1D[-1] - R1D[0]), Z1D[-1] - 0.1 * (Z1D[-1] - Z1D[0])]
            P = rng.uniform(lo, hi, size=(400, 2))
            # the tabulated profiles end at psi_N = pn_max (constant continuation): their derivative
            # jumps there and a finite difference straddling that contour is meaningless
            pn_ = fam.psinorm(eq.psi(P[:, 0], P[:, 1]))
            P = P[np.abs(pn_ - fam.pn_max) > 0.02][:300]
            R, Z = P[:, 0], P[:, 1]
            h = 1e-4 * fam.L
            pR = fdR(eq.psi, R, Z, h)
            pZ = fdZ(eq.psi, R, Z, h)
            g2 = pR**2 + pZ**2
            Bsc = float(np.sqrt(g2).max())
            acc.add("Bp_R = psi_Z/R (fd of psi)", cls, float(np.abs(eq.Bp_R(R, Z) - pZ / R).max()) / Bsc, 1e-7, where=where)
            acc.add("Bp_Z = -psi_R/R (fd of psi)", cls, float(np.abs(eq.Bp_Z(R, Z) + pR / R).max()) / Bsc, 1e-7, where=where)
            ok = np.sqrt(g2) > 0.05 * Bsc
            acc.add("f_R = psi_R/|grad psi|^2", cls, float(np.abs(eq.f_R(R, Z) * g2 - pR)[ok].max()) / Bsc, 1e-6, where=where)
            acc.add("f_Z = psi_Z/|grad psi|^2", cls, float(np.abs(eq.f_Z(R, Z) * g2 - pZ)[ok].max()) / Bsc, 1e-6, where=where)
            s2 = float(max(np.abs(eq.d2psidR2(R, Z)).max(), np.abs(eq.d2psidZ2(R, Z)).max()))
            t2 = 1e-3
            acc.add("d2psidR2 = d/dR(-R*Bp_Z)", cls, float(np.abs(eq.d2psidR2(R, Z) - fdR(lambda x, y: -eq.Bp_Z(x, y) * x, R, Z, h)).max()) / s2, t2, where=where)
            acc.add("d2psidZ2 = d/dZ(R*Bp_R)", cls, float(np.abs(eq.d2psidZ2(R, Z) - fdZ(lambda x, y: eq.Bp_R(x, y) * x, R, Z, h)).max()) / s2, t2, where=where)
            acc.add("d2psidRdZ = d/dR(R*Bp_R)", cls, float(np.abs(eq.d2psidRdZ(R, Z) - fdR(lambda x, y: eq.Bp_R(x, y) * x, R, Z, h)).max()) / s2, t2, where=where)
            for name, fun, dfun, dirn in (
                ("dBRdR", eq.Bp_R, eq.dBRdR, fdR),
                ("dBRdZ", eq.Bp_R, eq.dBRdZ, fdZ),
                ("dBZdR", eq.Bp_Z, eq.dBZdR, fdR),
                ("dBZdZ", eq.Bp_Z, eq.dBZdZ, fdZ),
                ("dBzetadR", eq.Bzeta, eq.dBzetadR, fdR),
                ("dBzetadZ", eq.Bzeta, eq.dBzetadZ, fdZ),
                ("dB2dR", eq.B2, eq.dB2dR, fdR),
                ("dB2dZ", eq.B2, eq.dB2dZ, fdZ),
                ("dBdR", lambda x, y: np.sqrt(eq.B2(x, y)), eq.dBdR, fdR),
                ("dBdZ", lambda x, y: np.sqrt(eq.B2(x, y)), eq.dBdZ, fdZ),
            ):
                ref = dirn(fun, R, Z, h)
                scl = float(np.abs(ref).max()) + 1e-300
                acc.add("%s = finite difference of the function it differentiates" % name, cls, float(np.abs(dfun(R, Z) - ref).max()) / scl, t2, where=where, sig="%s disagrees with fd (psi1D %s)" % (name, "increasing" if psi1D[-1] > psi1D[0] else "decreasing"))
            acc.add("div B = dBRdR + Bp_R/R + dBZdZ = 0", cls, float(np.abs(eq.dBRdR(R, Z) + eq.Bp_R(R, Z) / R + eq.dBZdZ(R, Z)).max()) / (s2 / 1.0), 1e-12, where=where)
            pp = psi1D[3:-3]
            hh = 1e-6 * abs(psi1D[-1] - psi1D[0])
            ref = (eq.fpol(pp + hh) - eq.fpol(pp - hh)) / (2 * hh)
            acc.add("fpolprime = d fpol / d psi", cls, float(np.abs(eq.fpolprime(pp) - ref).max()) / (float(np.abs(ref).max()) + 1e-300), 1e-5, where=where, sig="fpolprime has the wrong sign when psi1D decreases" if psi1D[-1] < psi1D[0] else None)
            # the three argument forms
            ml = MultiLocationArray(2, 2)
            mz = MultiLocationArray(2, 2)
            ml.centre = R[:4].reshape(2, 2)
            mz.centre = Z[:4].reshape(2, 2)
            ml.xlow = R[4:10].reshape(3, 2)
            mz.xlow = Z[4:10].reshape(3, 2)
            for nm, fn in (("psi", eq.psi), ("Bp_R", eq.Bp_R), ("Bp_Z", eq.Bp_Z), ("f_R", eq.f_R), ("d2psidR2", eq.d2psidR2)):
                try:
                    r_ml = fn(ml, mz)
                    e1 = float(np.abs(r_ml.centre.ravel() - fn(R[:4], Z[:4])).max()) + float(np.abs(r_ml.xlow.ravel() - fn(R[4:10], Z[4:10])).max())
                except Exception as ex:  # dct lambdas do not handle MultiLocationArray via the wrapper
                    try:
                        r_ml = fn(ml.centre, mz.centre)
                        e1 = float(np.abs(r_ml.ravel() - fn(R[:4], Z[:4])).max())
                    except Exception:
                        e1 = float("nan")
                # every subset of staggered locations that the grid generator or a user may set: the
                # result carries exactly the locations of the argument, each equal to the array call
                if not np.isnan(e1) and m == "spline":
                    shapes = {"centre": (2, 2), "xlow": (3, 2), "ylow": (2, 3), "corners": (3, 3)}
                    for subset in (("centre", "ylow"), ("ylow",), ("ylow", "corners"), ("xlow", "corners"), ("centre", "xlow", "ylow", "corners")):
                        a_R, a_Z = MultiLocationArray(2, 2), MultiLocationArray(2, 2)
                        off = 0
                        exp_ = {}
                        for loc in subset:
                            n_ = shapes[loc][0] * shapes[loc][1]
                            setattr(a_R, loc, R[off : off + n_].reshape(shapes[loc]).copy())
                            setattr(a_Z, loc, Z[off : off + n_].reshape(shapes[loc]).copy())
                            exp_[loc] = fn(R[off : off + n_], Z[off : off + n_]).reshape(shapes[loc])
                            off += n_
                        try:
                            got_ = fn(a_R, a_Z)
                            es = max(float(np.abs(np.asarray(getattr(got_, loc)) - exp_[loc]).max()) for loc in subset)
                        except Exception:  # noqa: BLE001
                            es = float("nan")
                        scl_ = float(np.abs(fn(R[:20], Z[:20])).max()) + 1e-300
                        acc.add("multi-location-array argument with only some locations set: every set location = the array call", cls, es / scl_, 0.0, where=dict(where, function=nm, locations=list(subset)))
                e2 = abs(float(fn(float(R[0]), float(Z[0]))) - float(fn(R[:1], Z[:1])[0]))
                scl = float(np.abs(fn(R[:10], Z[:10])).max()) + 1e-300
                acc.add("scalar / array / multi-location-array arguments agree", cls, (e1 + e2) / scl, 0.0 if m == "spline" else 1e-13, where=dict(where, function=nm), note="spline: bitwise; dct: summation order may differ by rounding")
            # agreement with the analytic function, interior only
            acc.add("psi = analytic family (interior)", cls, float(np.abs(eq.psi(R, Z) - fam.psi(R, Z)).max()) / sc, 2e-3 * (33.0 / min(nR, nZ)) ** 2, where=where)
            gR, gZ = fam.grad(R, Z)
            acc.add("Bp = analytic family (interior)", cls, float(max(np.abs(eq.Bp_R(R, Z) - gZ / R).max(), np.abs(eq.Bp_Z(R, Z) + gR / R).max())) / Bsc, 0.03 * (33.0 / min(nR, nZ)) ** 2, where=where)
        P = rng.uniform(lo, hi, size=(300, 2))
        R, Z = P[:, 0], P[:, 1]
        acc.add("spline and dct agree (psi, interior)", "both", float(np.abs(eqs["spline"].psi(R, Z) - eqs["dct"].psi(R, Z)).max()) / sc, 2e-3 * (33.0 / min(nR, nZ)) ** 2, where=e_)
        acc.add("spline and dct agree (Bp, interior)", "both", float(np.abs(eqs["spline"].Bp_R(R, Z) - eqs["dct"].Bp_R(R, Z)).max()) / Bsc, 0.03 * (33.0 / min(nR, nZ)) ** 2, where=e_)
    write_out(d, {"records": acc.records(), "executions": nexec, "distinct": distinct, "samples": samples})


if __name__ == "__main__":
    main()
