"""Differential checker over a pair of generated cases (C13, C14, C15, C16)."""

import json
import os

import numpy as np

from .. import orchestrate, runcase
from .common import Acc, load_job, write_out

SKIP_STR = {"hypnotoad_inputs", "hypnotoad_inputs_yaml", "Python_version", "module_versions"}


def numeric_vars(nc):
    return [k for k in nc if not k.startswith("__")]


def same_bits(a, b):
    a = np.asarray(a)
    b = np.asarray(b)
    if a.shape != b.shape:
        return False
    if a.dtype.kind == "f":
        return bool(np.array_equal(np.isnan(a), np.isnan(b)) and np.array_equal(np.nan_to_num(a, nan=0.0), np.nan_to_num(b, nan=0.0)))
    return bool(np.array_equal(a, b))


def load(spec):
    d = orchestrate.case_dir(spec)
    gp = os.path.join(d, "gen.json")
    if not os.path.exists(gp):
        return None, None, d
    with open(gp) as f:
        gen = json.load(f)
    return gen, d, d


def mode_identical(acc, cls, A, B, ncA, ncB, ignore=()):
    va, vb = set(numeric_vars(ncA)), set(numeric_vars(ncB))
    acc.add("same set of variables", cls, len(va ^ vb), 0, sig=",".join(sorted(va ^ vb))[:200])
    bad = []
    for k in sorted(va & vb):
        if k in ignore:
            continue
        if not same_bits(ncA[k], ncB[k]):
            d = np.abs(np.nan_to_num(np.asarray(ncA[k], float)) - np.nan_to_num(np.asarray(ncB[k], float))).max() if np.asarray(ncA[k]).shape == np.asarray(ncB[k]).shape else float("inf")
            bad.append("%s(max|diff|=%.3g)" % (k, d))
    acc.add("every numeric variable identical value for value (NaN pattern included)", cls, len(bad), 0, where={"a": A.get("tag"), "b": B.get("tag"), "differing": bad[:12]}, sig=";".join(bad)[:300] if bad else None, n=len(va & vb))
    for k in ncA["__strings__"]:
        if k in SKIP_STR or k in ignore:
            continue
        acc.add("string variables identical", cls, 0.0 if ncA["__strings__"].get(k) == ncB["__strings__"].get(k) else 1.0, 0, sig=k)


def mode_close(acc, cls, A, B, ncA, ncB, pos_tol, rel_tol):
    for k in ("Rxy", "Zxy", "Rxy_xlow", "Zxy_xlow", "Rxy_ylow", "Zxy_ylow", "Rxy_corners", "Zxy_corners", "Rxy_upper_right_corners", "Zxy_upper_right_corners"):
        if ncA[k].shape != ncB[k].shape:
            acc.add("same grid shape", cls, 1.0, 0, sig=k)
            return
        acc.add("positions equal to the point-refinement tolerance", cls, float(np.abs(ncA[k] - ncB[k]).max()), pos_tol, sig=k, where={"a": A.get("tag"), "b": B.get("tag"), "var": k})
    for k in sorted(set(numeric_vars(ncA)) & set(numeric_vars(ncB))):
        a = np.asarray(ncA[k], float)
        b = np.asarray(ncB[k], float)
        if a.ndim != 2 or k.startswith(("Rxy", "Zxy")):
            continue
        m = np.isfinite(a) & np.isfinite(b)
        if not np.array_equal(np.isfinite(a), np.isfinite(b)):
            acc.add("derived geometry: same finite/NaN pattern", cls, 1.0, 0, sig=k)
            continue
        if not m.any():
            continue
        sc = max(float(np.abs(b[m]).max()), 1e-300)
        acc.add("derived geometry equal (relative to the field's scale)", cls, float(np.abs(a[m] - b[m]).max()) / sc, rel_tol, sig=k, where={"var": k})


def main():
    d, job = load_job()
    a = job["args"]
    acc = Acc()
    A, B = a["a"], a["b"]
    cls = a.get("cls", a["mode"])
    inconclusive = []
    ga, da, _ = load(A)
    gb, db, _ = load(B)
    out = {"records": [], "executions": 1, "distinct_keys": [], "samples": [{"a": A, "b": B, "mode": a["mode"]}], "inconclusive": inconclusive}
    if ga is None or gb is None:
        inconclusive.append("a component case was not generated")
        write_out(d, out)
        return
    if ga["outcome"] != "ok" or gb["outcome"] != "ok":
        if a.get("both_refused_ok") and ga["outcome"] != "ok" and gb["outcome"] != "ok":
            acc.add("both executions refused consistently", cls, 0.0 if ga.get("exc_type") == gb.get("exc_type") else 1.0, 0, sig="%s vs %s" % (ga.get("exc_type"), gb.get("exc_type")))
        elif ga["outcome"] != gb["outcome"] and a.get("refusal_not_comparable"):
            # the property compares two grids: where one of the two could not be built there is
            # nothing to compare (reported, and the coverage requirement sees no comparison)
            acc.add("informational: one of the two builds was refused, nothing to compare", cls + "|not comparable", 0.0, 0, sig="%s: %s / %s: %s %s" % (A.get("tag"), ga["outcome"], B.get("tag"), gb["outcome"], (ga.get("exc_msg") or gb.get("exc_msg") or "")[:120]))
        elif ga["outcome"] != gb["outcome"]:
            acc.add("both executions have the same outcome", cls, 1.0, 0, sig="%s: %s / %s: %s %s" % (A.get("tag"), ga["outcome"], B.get("tag"), gb["outcome"], (ga.get("exc_msg") or gb.get("exc_msg") or "")[:120]))
        elif a.get("refusal_not_comparable"):
            acc.add("informational: both builds were refused, nothing to compare", cls + "|not comparable", 0.0, 0, where={"a": A.get("tag"), "b": B.get("tag"), "exc": (ga.get("exc_msg") or "")[:100]})
        else:
            inconclusive.append("both component cases refused: %s" % (ga.get("exc_msg") or "")[:100])
        out["records"] = acc.records()
        write_out(d, out)
        return
    ncA = runcase.load_nc(os.path.join(da, "grid.nc"))
    ncB = runcase.load_nc(os.path.join(db, "grid.nc"))
    mode = a["mode"]
    if mode == "identical":
        mode_identical(acc, cls, A, B, ncA, ncB, ignore=set(a.get("ignore", [])))
    elif mode == "close":
        mode_close(acc, cls, A, B, ncA, ncB, float(a.get("pos_tol", 1e-7)), float(a.get("rel_tol", 1e-6)))
    elif mode in ("mirror", "scaled"):
        from . import pair_modes

        getattr(pair_modes, "mode_" + mode)(acc, cls, A, B, da, db, ncA, ncB, a)
    out["records"] = acc.records()
    out["distinct_keys"] = ["pair:%s|%s" % (orchestrate.case_key(A), orchestrate.case_key(B))]
    write_out(d, out)


if __name__ == "__main__":
    main()
