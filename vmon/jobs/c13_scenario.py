"""Runs ONE ParallelMap scenario in its own process and prints a JSON verdict.

The caller side records call / return / exception; the tasks record start / end / raise
with unique ids.  A hang is decided by *state*: every task has ended or raised, every
worker is dead or idle on an empty task queue, and __call__ has neither returned nor
raised -> no event can ever arrive.
"""

import glob
import json
import os
import sys
import tempfile
import threading
import time

from .. import env

env.setup_paths()


def read_events(logdir):
    evs = []
    for p in glob.glob(os.path.join(logdir, "*.jsonl")):
        with open(p) as f:
            for line in f:
                try:
                    evs.append(json.loads(line))
                except Exception:
                    pass
    evs.sort(key=lambda e: e["t"])
    return evs


def main():
    sc = json.loads(sys.argv[1])
    from hypnotoad.utils.parallel_map import ParallelMap

    from . import c13_tasks

    logdir = tempfile.mkdtemp(prefix="c13_", dir=os.environ.get("VERIF_SCRATCH", None))
    n = int(sc["n_tasks"])
    delays = sc.get("delays") or [0.0] * n
    modes = ["ok"] * n
    fa = sc.get("fail_at")
    if fa is not None:
        for k in (fa if isinstance(fa, list) else [fa]):
            modes[int(k)] = sc.get("fail_type", "ValueError")
    args = [(i, float(delays[i]), modes[i]) for i in range(n)]
    model_exc = None
    model = []
    for i in range(n):
        if modes[i] != "ok":
            model_exc = modes[i]
            break
        model.append(["result", i, i * i, 5.0])
    res = {"scenario": sc, "outcome": None}
    pm = ParallelMap(int(sc["np"]), equilibrium=c13_tasks.StubEq())
    ncalls = 2 if sc.get("second_call") else 1
    # "repeat_failing": the failing call is made that many times before the final all-good call
    repeat = int(sc.get("repeat_failing", 1))
    for rep in range(repeat - 1):
        done = {"d": False}

        def failing_again():
            try:
                pm(c13_tasks.task, [(1000 * (rep + 1) + i, float(delays[i]), modes[i]) for i in range(n)], logdir=logdir)
            except BaseException:  # noqa: BLE001
                pass
            done["d"] = True

        th0 = threading.Thread(target=failing_again, daemon=True)
        th0.start()
        th0.join(20)
        if not done["d"]:
            res["outcome"] = None
            res["call0"] = {"hang": True, "returned": False, "exception": None, "completion_order": [], "workers_alive": sum(1 for w in (pm.workers or []) if w.is_alive()), "note": "repeated failing call %d blocked" % (rep + 2)}
            for w in pm.workers or []:
                try:
                    w.terminate()
                except Exception:
                    pass
            print("RESULT " + json.dumps(res))
            os._exit(0)
    for call in range(ncalls):
        state = {"done": False, "ret": None, "exc": None, "exc_msg": None}
        if call == 1:
            # second call on the same ParallelMap: all tasks succeed
            args2 = [(100 + i, 0.0, "ok") for i in range(n)]
            model2 = [["result", 100 + i, (100 + i) ** 2, 5.0] for i in range(n)]

        def caller(call=call):
            try:
                if call == 0:
                    state["ret"] = pm(c13_tasks.task, args, logdir=logdir)
                else:
                    state["ret"] = pm(c13_tasks.task, args2, logdir=logdir)
            except BaseException as e:  # noqa: BLE001
                state["exc"] = type(e).__name__
                state["exc_msg"] = str(e)[:200]
            state["done"] = True

        th = threading.Thread(target=caller, daemon=True)
        t0 = time.monotonic()
        th.start()
        hang = False
        quiet_since = None
        while not state["done"]:
            time.sleep(0.02)
            evs = read_events(logdir)
            ids = [a_[0] for a_ in (args if call == 0 else args2)]
            finished = sum(1 for e in evs if e["ev"] in ("end", "raise") and e["id"] in ids)
            started = sum(1 for e in evs if e["ev"] == "start" and e["id"] in ids)
            workers = pm.workers or []
            alive = [w for w in workers if w.is_alive()]
            # no task is running: everything started has finished, and either all tasks
            # finished or no worker is left to take the remaining ones
            idle = started == finished and (finished == len(ids) or not alive)
            if idle:
                if quiet_since is None:
                    quiet_since = time.monotonic()
                elif time.monotonic() - quiet_since > float(sc.get("grace", 2.0)):
                    hang = True
                    break
            else:
                quiet_since = None
            if time.monotonic() - t0 > 100:
                res["outcome"] = "watchdog"
                break
        key = "call%d" % call
        evs = read_events(logdir)
        order = [e["id"] for e in evs if e["ev"] in ("end", "raise")]
        res[key] = {
            "hang": hang,
            "returned": state["ret"] is not None and state["exc"] is None and state["done"],
            "exception": state["exc"],
            "exception_msg": state.get("exc_msg"),
            "completion_order": order,
            "workers_alive": sum(1 for w in (pm.workers or []) if w.is_alive()),
        }
        if state["done"] and state["exc"] is None:
            got = [list(x) if isinstance(x, tuple) else x for x in state["ret"]]
            exp = model if call == 0 else model2
            res[key]["positions_ok"] = got == exp
            res[key]["n_returned"] = len(got)
        if hang or res["outcome"] == "watchdog":
            break
    res["model_exception"] = model_exc
    res["model_first_failing_task"] = next((i for i in range(n) if modes[i] != "ok"), None)
    # clean up
    for w in pm.workers or []:
        try:
            w.terminate()
        except Exception:
            pass
    import shutil

    shutil.rmtree(logdir, ignore_errors=True)
    print("RESULT " + json.dumps(res))
    os._exit(0)


if __name__ == "__main__":
    main()
