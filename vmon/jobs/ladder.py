"""Resolution ladders over several generated cases:
  mode 'nfine'  (C05): the arc-length error of hy must shrink quadratically with finecontour_Nfine
  mode 'nest_y' (C10): doubling every ny (and the guard cells) leaves each original y-face a face of the finer grid
  mode 'nest_x' (C09): doubling every nx leaves each original x-face (psi value) a face of the finer grid
"""

import json
import os

import numpy as np

from .. import orchestrate, runcase
from .common import Acc, load_job, write_out


def load_case(spec):
    d = orchestrate.case_dir(spec)
    gp = os.path.join(d, "gen.json")
    if not os.path.exists(gp):
        return None, d
    with open(gp) as f:
        return json.load(f), d


def main():
    d, job = load_job()
    a = job["args"]
    acc = Acc()
    mode = a["mode"]
    inconclusive = []
    specs = a["cases"]
    gens = [load_case(s) for s in specs]
    bad = [s.get("tag") for s, (g, _) in zip(specs, gens) if g is None or g["outcome"] != "ok"]
    if bad:
        inconclusive.append("ladder cases not generated: %s" % bad)
        write_out(d, {"records": [], "executions": len(specs), "distinct_keys": [], "samples": [], "inconclusive": inconclusive})
        return
    cls = a.get("cls", mode)
    samples = [{"mode": mode, "cases": [s.get("tag") for s in specs]}]
    if mode == "nfine":
        from ..monitors import c05

        Ns, mx, md = [], [], []
        for s, (g, cd) in zip(specs, gens):
            cap = runcase.load_capture(cd, s)
            col = {}
            c05.run(cap, collect=col)
            e = col["rel_c"]
            Ns.append(float(s["opts"]["finecontour_Nfine"]))
            mx.append(float(np.max(e)))
            md.append(float(np.median(e)))
        Ns, mx, md = np.array(Ns), np.array(mx), np.array(md)
        order_max = -np.polyfit(np.log(Ns), np.log(mx), 1)[0]
        order_med = -np.polyfit(np.log(Ns), np.log(md), 1)[0]
        samples[0].update(Nfine=Ns.tolist(), max_rel_err=mx.tolist(), median_rel_err=md.tolist(), fitted_order_max=order_max, fitted_order_median=order_med)
        acc.add("arc-length error of hy shrinks quadratically with finecontour_Nfine (fitted order of the max)", cls, max(0.0, 1.6 - order_max), 0.0, where=samples[0], sig="fitted order %.2f" % order_max, n=len(Ns))
        acc.add("arc-length error of hy shrinks quadratically with finecontour_Nfine (fitted order of the median)", cls, max(0.0, 1.6 - order_med), 0.0, where=samples[0], sig="fitted order %.2f" % order_med, n=len(Ns))
    elif mode in ("nest_y", "nest_x"):
        (g1, d1), (g2, d2) = gens
        c1 = runcase.load_capture(d1, specs[0])
        c2 = runcase.load_capture(d2, specs[1])
        r1 = {r.name: r for r in c1.mesh.regions.values()}
        r2 = {r.name: r for r in c2.mesh.regions.values()}
        for name, a_ in r1.items():
            b_ = r2.get(name)
            if b_ is None:
                acc.add("same regions in the coarse and the fine grid", cls, 1.0, 0, sig=name)
                continue
            if mode == "nest_y":
                # faces of the coarse grid (ylow, incl. the last) = every second face of the fine grid
                for loc in ("ylow", "corners"):
                    Ra, Za = getattr(a_.Rxy, loc), getattr(a_.Zxy, loc)
                    Rb, Zb = getattr(b_.Rxy, loc)[:, ::2], getattr(b_.Zxy, loc)[:, ::2]
                    if Ra.shape != Rb.shape:
                        acc.add("fine grid has twice the y-cells", cls, 1.0, 0, sig="%s %s vs %s" % (name, Ra.shape, Rb.shape))
                        continue
                    dd = np.hypot(Ra - Rb, Za - Zb)
                    myg1 = int(c1.mesh.user_options.y_boundary_guards)
                    dom = np.ones(dd.shape[1], bool)
                    if a_.connections["lower"] is None:
                        dom[:myg1] = False
                    if a_.connections["upper"] is None:
                        dom[dd.shape[1] - myg1 :] = False
                    acc.add("original y-faces are faces of the grid with doubled ny (faces between the targets)", cls, float(dd[:, dom].max()), 1e-7, where={"region": name, "loc": loc}, n=int(dom.sum()) * dd.shape[0], note="bounded by refine_atol/|grad psi| and the FineContour interpolation (observed 1e-12)")
                    if (~dom).any():
                        acc.add("original y-faces are faces of the grid with doubled ny (boundary guard cells)", cls, float(dd[:, ~dom].max()), 1e-7, where={"region": name, "loc": loc}, n=int((~dom).sum()) * dd.shape[0], sig="guard faces of %s differ between the two resolutions" % name)
                pd1 = a_.poloidal_distance.ylow
                pd2 = b_.poloidal_distance.ylow[:, ::2]
                acc.add("poloidal_distance at the original faces unchanged (faces between the targets)", cls, float(np.abs(pd1 - pd2)[:, dom].max()), 1e-7, where={"region": name})
            else:
                pa = np.asarray(a_.psi_vals)[::2]
                pb = np.asarray(b_.psi_vals)[::4]
                if pa.shape != pb.shape:
                    acc.add("fine grid has twice the x-cells", cls, 1.0, 0, sig="%s %s vs %s" % (name, pa.shape, pb.shape))
                    continue
                rng_ = abs(pa[-1] - pa[0])
                acc.add("original x-faces (psi values) are faces of the grid with doubled nx", cls, float(np.abs(pa - pb).max()) / rng_, 1e-9, where={"region": name}, n=pa.size)
    write_out(d, {"records": acc.records(), "executions": len(specs), "distinct_keys": ["ladder:" + ",".join(orchestrate.case_key(s) for s in specs)], "samples": samples, "inconclusive": inconclusive})


if __name__ == "__main__":
    main()
