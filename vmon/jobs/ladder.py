"""Resolution ladders over several generated cases:
  mode 'nfine'  (C05): the arc-length error of hy must shrink quadratically with finecontour_Nfine
  mode 'nest_y' (C10): doubling every ny (and the guard cells) leaves each original y-face a face of the finer grid
  mode 'nest_x' (C09): doubling every nx leaves each original x-face (psi value) a face of the finer grid
"""

import json
import os

import numpy as np

from .. import orchestrate, runcase
from .common import Acc, load_job, write_out


def load_case(spec):
    d = orchestrate.case_dir(spec)
    gp = os.path.join(d, "gen.json")
    if not os.path.exists(gp):
        return None, d
    with open(gp) as f:
        return json.load(f), d


def main():
    d, job = load_job()
    a = job["args"]
    acc = Acc()
    mode = a["mode"]
    inconclusive = []
    specs = a["cases"]
    gens = [load_case(s) for s in specs]
    bad = [s.get("tag") for s, (g, _) in zip(specs, gens) if g is None or g["outcome"] != "ok"]
    if bad:
        inconclusive.append("ladder cases not generated: %s" % bad)
        write_out(d, {"records": [], "executions": len(specs), "distinct_keys": [], "samples": [], "inconclusive": inconclusive})
        return
    cls = a.get("cls", mode)
    samples = [{"mode": mode, "cases": [s.get("tag") for s in specs]}]
    if mode == "nfine":
        from ..monitors import c05

        Ns, mx, md = [], [], []
        for s, (g, cd) in zip(specs, gens):
            cap = runcase.load_capture(cd, s)
            col = {}
            c05.run(cap, collect=col)
            e = col["rel_c"]
            Ns.append(float(s["opts"]["finecontour_Nfine"]))
            mx.append(float(np.max(e)))
            md.append(float(np.median(e)))
        Ns, mx, md = np.array(Ns), np.array(mx), np.array(md)
        order_max = -np.polyfit(np.log(Ns), np.log(mx), 1)[0]
        order_med = -np.polyfit(np.log(Ns), np.log(md), 1)[0]
        samples[0].update(Nfine=Ns.tolist(), max_rel_err=mx.tolist(), median_rel_err=md.tolist(), fitted_order_max=order_max, fitted_order_median=order_med)
        acc.add("arc-length error of hy shrinks quadratically with finecontour_Nfine (fitted order of the max)", cls, max(0.0, 1.6 - order_max), 0.0, where=samples[0], sig="fitted order %.2f" % order_max, n=len(Ns))
        acc.add("arc-length error of hy shrinks quadratically with finecontour_Nfine (fitted order of the median)", cls, max(0.0, 1.6 - order_med), 0.0, where=samples[0], sig="fitted order %.2f" % order_med, n=len(Ns))
    elif mode in ("nest_y", "nest_x"):
        (g1, d1), (g2, d2) = gens
        c1 = runcase.load_capture(d1, specs[0])
        c2 = runcase.load_capture(d2, specs[1])
        r1 = {r.name: r for r in c1.mesh.regions.values()}
        r2 = {r.name: r for r in c2.mesh.regions.values()}
        for name, a_ in r1.items():
            b_ = r2.get(name)
            if b_ is None:
                acc.add("same regions in the coarse and the fine grid", cls, 1.0, 0, sig=name)
                continue
            if mode == "nest_y":
                # faces of the coarse grid (ylow, incl. the last) = every second face of the fine grid
                myg1 = int(c1.mesh.user_options.y_boundary_guards)
                myg2 = int(c2.mesh.user_options.y_boundary_guards)
                o1 = myg1 if a_.connections["lower"] is None else 0
                o2 = myg2 if a_.connections["lower"] is None else 0
                u1 = myg1 if a_.connections["upper"] is None else 0
                nyng = a_.ny - o1 - u1  # cells between the targets
                k = np.arange(nyng + 1)
                j1, j2 = o1 + k, o2 + 2 * k
                for loc in ("ylow", "corners"):
                    Ra, Za = getattr(a_.Rxy, loc), getattr(a_.Zxy, loc)
                    Rf, Zf = getattr(b_.Rxy, loc), getattr(b_.Zxy, loc)
                    if Rf.shape[1] <= j2.max() or Ra.shape[0] != Rf.shape[0]:
                        acc.add("fine grid has twice the y-cells", cls, 1.0, 0, sig="%s %s vs %s" % (name, Ra.shape, Rf.shape))
                        continue
                    dd = np.hypot(Ra[:, j1] - Rf[:, j2], Za[:, j1] - Zf[:, j2])
                    acc.add("original y-faces are faces of the grid with doubled ny (faces between the targets)", cls, float(dd.max()), 1e-7, where={"region": name, "loc": loc}, n=dd.size, note="bounded by refine_atol/|grad psi| and the FineContour interpolation (observed 1e-12)")
                    if myg2 == 2 * myg1 and (o1 or u1):
                        # the guard cells were doubled as well: they nest too
                        g1 = np.array([j for j in range(Ra.shape[1]) if j < o1 or j > o1 + nyng], int)
                        g2 = np.where(g1 < o1, 2 * g1, o2 + 2 * nyng + 2 * (g1 - o1 - nyng))
                        if len(g1) and g2.max() < Rf.shape[1]:
                            dg = np.hypot(Ra[:, g1] - Rf[:, g2], Za[:, g1] - Zf[:, g2])
                            acc.add("original y-faces are faces of the grid with doubled ny (boundary guard cells)", cls, float(dg.max()), 1e-7, where={"region": name, "loc": loc}, n=dg.size, sig="guard faces of %s differ between the two resolutions" % name)
                pd1 = a_.poloidal_distance.ylow[:, j1]
                pd2 = b_.poloidal_distance.ylow[:, j2]
                acc.add("poloidal_distance at the original faces unchanged (faces between the targets)", cls, float(np.abs((pd1 - pd1[:, :1]) - (pd2 - pd2[:, :1])).max()), 1e-7, where={"region": name})
            else:
                pa = np.asarray(a_.psi_vals)[::2]
                pb = np.asarray(b_.psi_vals)[::4]
                if pa.shape != pb.shape:
                    acc.add("fine grid has twice the x-cells", cls, 1.0, 0, sig="%s %s vs %s" % (name, pa.shape, pb.shape))
                    continue
                rng_ = abs(pa[-1] - pa[0])
                acc.add("original x-faces (psi values) are faces of the grid with doubled nx", cls, float(np.abs(pa - pb).max()) / rng_, 1e-9, where={"region": name}, n=pa.size)
    write_out(d, {"records": acc.records(), "executions": len(specs), "distinct_keys": ["ladder:" + ",".join(orchestrate.case_key(s) for s in specs)], "samples": samples, "inconclusive": inconclusive})


if __name__ == "__main__":
    main()
