"""Case cache, process pool and watchdogs.

Every case / unit job runs in its own subprocess in a new session; the whole process
group is killed when the (generous) wall-clock watchdog fires, and that outcome is
'timeout' = inconclusive, never a violation.
"""

import fcntl
import glob
import hashlib
import json
import os
import shutil
import signal
import subprocess
import sys
import threading
import time

from . import env

_HERE = os.path.dirname(os.path.abspath(__file__))
_GEN_FILES = ["build.py", "families.py", "runcase.py", "contracts.py", "contracts_impl.py", "env.py"]
_MON_COMMON = ["rec.py", "oracles.py", "boutindex.py", "exactgeom.py"]

_repo_hash = None


def repo_hash():
    global _repo_hash
    if _repo_hash is None:
        _repo_hash = env.repo_hash()
    return _repo_hash


def gen_hash():
    return env.code_hash([os.path.join(_HERE, f) for f in _GEN_FILES])


def monitor_hash(name):
    files = [os.path.join(_HERE, f) for f in _MON_COMMON if os.path.exists(os.path.join(_HERE, f))]
    files.append(os.path.join(_HERE, "monitors", name.lower() + ".py"))
    return env.code_hash(files)


def canon(spec):
    return json.dumps(spec, sort_keys=True, separators=(",", ":"))


def case_key(spec):
    h = hashlib.sha256()
    h.update(canon(spec).encode())
    h.update(gen_hash().encode())
    return h.hexdigest()[:20]


def cache_root():
    return os.path.join(env.CACHE, repo_hash())


def case_dir(spec):
    d = os.path.join(cache_root(), "case", case_key(spec))
    os.makedirs(d, exist_ok=True)
    sp = os.path.join(d, "spec.json")
    if not os.path.exists(sp):
        tmp = sp + ".tmp%d" % os.getpid()
        with open(tmp, "w") as f:
            json.dump(spec, f, sort_keys=True, indent=1)
        os.replace(tmp, sp)
    return d


def prune_cache(keep=2):
    """Keep the cache directories of the most recent `keep` repository states."""
    root = env.CACHE
    if not os.path.isdir(root):
        return
    cur = repo_hash()
    ds = [d for d in glob.glob(os.path.join(root, "*")) if os.path.isdir(d) and os.path.basename(d) not in ("tokens", "locks")]
    ds.sort(key=lambda d: os.path.getmtime(d), reverse=True)
    kept = 0
    now = time.time()
    for d in ds:
        if os.path.basename(d) == cur:
            continue
        kept += 1
        # never remove a directory another check may still be working in (checks of different
        # repository states can run side by side): only states untouched for two hours
        try:
            recent = max([os.path.getmtime(d)] + [os.path.getmtime(os.path.join(d, x)) for x in os.listdir(d)])
        except OSError:
            recent = now
        if kept >= keep and now - recent > 7200:
            shutil.rmtree(d, ignore_errors=True)


# ----------------------------------------------------------------------------------
# machine-wide token pool (so concurrent checks never run more than NTOK cases)
# ----------------------------------------------------------------------------------
NTOK = int(os.environ.get("VERIF_JOBS", "16"))


class Token:
    def __init__(self):
        self.fd = None

    def acquire(self):
        d = os.path.join(env.CACHE, "tokens")
        os.makedirs(d, exist_ok=True)
        while True:
            for i in range(NTOK):
                fd = os.open(os.path.join(d, "t%02d" % i), os.O_CREAT | os.O_RDWR)
                try:
                    fcntl.flock(fd, fcntl.LOCK_EX | fcntl.LOCK_NB)
                    self.fd = fd
                    return
                except OSError:
                    os.close(fd)
            time.sleep(0.2)

    def release(self):
        if self.fd is not None:
            try:
                fcntl.flock(self.fd, fcntl.LOCK_UN)
            finally:
                os.close(self.fd)
                self.fd = None


def run_subprocess(cmd, logpath, timeout, extra_env=None, cwd=None):
    """Runs cmd in a new session; kills the process group on timeout.
    Returns (status, wall_s) with status in {'ok','exit<N>','timeout'}."""
    t0 = time.time()
    with open(logpath, "ab") as log:
        p = subprocess.Popen(
            cmd,
            stdout=log,
            stderr=subprocess.STDOUT,
            stdin=subprocess.DEVNULL,
            start_new_session=True,
            env=env.child_env(extra_env),
            cwd=cwd or env.VERIF_ROOT,
        )
        try:
            rc = p.wait(timeout=timeout)
            status = "ok" if rc == 0 else "exit%d" % rc
        except subprocess.TimeoutExpired:
            status = "timeout"
        finally:
            # always reap the whole group: ParallelMap workers outlive their parent
            try:
                os.killpg(p.pid, signal.SIGKILL)
            except (ProcessLookupError, PermissionError):
                pass
            try:
                p.wait(timeout=10)
            except Exception:
                pass
    return status, time.time() - t0


def _locked(path):
    os.makedirs(os.path.dirname(path), exist_ok=True)
    fd = os.open(path, os.O_CREAT | os.O_RDWR)
    fcntl.flock(fd, fcntl.LOCK_EX)
    return fd


def _mon_current(casedir, m):
    p = os.path.join(casedir, "mon_%s.json" % m)
    if not os.path.exists(p):
        return False
    try:
        with open(p) as f:
            return json.load(f).get("mon_hash") == monitor_hash(m)
    except Exception:
        return False


def run_case(spec, monitors, timeout=None, use_cache=True):
    """Ensures gen + requested monitors exist for spec. Returns result dict."""
    d = case_dir(spec)
    timeout = timeout or float(spec.get("timeout", 900))
    lock = _locked(os.path.join(d, ".lock"))
    computed = False
    status = "cached"
    try:
        if not use_cache:
            for fn in os.listdir(d):
                if fn.startswith(("gen.json", "mon_", "capture", "grid.nc")):
                    os.remove(os.path.join(d, fn))
        need = not os.path.exists(os.path.join(d, "gen.json")) or any(not _mon_current(d, m) for m in monitors)
        if need:
            tok = Token()
            tok.acquire()
            try:
                cmd = [env.PY, "-m", "vmon.runcase", d, "--monitors", ",".join(monitors)]
                status, wall = run_subprocess(cmd, os.path.join(d, "log.txt"), timeout)
                computed = True
            finally:
                tok.release()
    finally:
        fcntl.flock(lock, fcntl.LOCK_UN)
        os.close(lock)
    res = {"spec": spec, "dir": d, "status": status, "computed": computed, "gen": None, "mon": {}}
    gp = os.path.join(d, "gen.json")
    if os.path.exists(gp):
        with open(gp) as f:
            res["gen"] = json.load(f)
    for m in monitors:
        p = os.path.join(d, "mon_%s.json" % m)
        if os.path.exists(p):
            with open(p) as f:
                res["mon"][m] = json.load(f)
    return res


def run_job(job, use_cache=True):
    """Generic cached job: {'name','module','args':{...},'deps_hash','timeout'}.
    Runs `python -m <module> <jobdir>`; the module reads job.json and writes out.json."""
    h = hashlib.sha256()
    h.update(canon({k: job[k] for k in ("module", "args")}).encode())
    files = glob.glob(os.path.join(_HERE, "jobs", "*.py"))
    files += [os.path.join(_HERE, f) for f in _MON_COMMON + ["families.py", "build.py", "gridutil.py"] if os.path.exists(os.path.join(_HERE, f))]
    h.update(env.code_hash(files).encode())
    key = h.hexdigest()[:20]
    d = os.path.join(cache_root(), "job", key)
    os.makedirs(d, exist_ok=True)
    lock = _locked(os.path.join(d, ".lock"))
    status = "cached"
    computed = False
    try:
        outp = os.path.join(d, "out.json")
        if not use_cache and os.path.exists(outp):
            os.remove(outp)
        if not os.path.exists(outp):
            with open(os.path.join(d, "job.json"), "w") as f:
                json.dump(job, f, sort_keys=True, indent=1)
            tok = Token()
            tok.acquire()
            try:
                status, wall = run_subprocess([env.PY, "-m", job["module"], d], os.path.join(d, "log.txt"), float(job.get("timeout", 900)))
                computed = True
            finally:
                tok.release()
    finally:
        fcntl.flock(lock, fcntl.LOCK_UN)
        os.close(lock)
    res = {"job": job, "dir": d, "status": status, "computed": computed, "out": None}
    if os.path.exists(os.path.join(d, "out.json")):
        with open(os.path.join(d, "out.json")) as f:
            res["out"] = json.load(f)
    return res


def run_many(fn_args, jobs=None):
    """fn_args: list of (callable, args, kwargs). Runs them on a thread pool (each
    callable blocks on a subprocess), returns results in order."""
    jobs = jobs or NTOK
    results = [None] * len(fn_args)
    idx = {"i": 0}
    lk = threading.Lock()

    def worker():
        while True:
            with lk:
                i = idx["i"]
                idx["i"] += 1
            if i >= len(fn_args):
                return
            fn, a, kw = fn_args[i]
            try:
                results[i] = fn(*a, **kw)
            except Exception as e:  # pragma: no cover
                results[i] = {"status": "harness_error", "error": repr(e)}

    ths = [threading.Thread(target=worker, daemon=True) for _ in range(min(jobs, max(1, len(fn_args))))]
    for t in ths:
        t.start()
    for t in ths:
        t.join()
    return results
