"""Online contracts installed on hypnotoad's real functions from the harness.

install(spec) patches module attributes (in every module that binds the name) with
wrappers that check a post-condition on every call made while the real grid generator
runs, and count their evaluations.  Violations are recorded, not raised, so that one
defect does not mask the rest; they end up in gen.json["contracts"].
"""

import functools
import math
import os

import numpy as np

_STATE = {"counters": {}, "violations": []}


def _count(name, n=1):
    _STATE["counters"][name] = _STATE["counters"].get(name, 0) + n


def _violate(name, detail):
    v = _STATE["violations"]
    entry = {"contract": name, "detail": detail, "pid": os.getpid()}
    if len(v) < 200:
        v.append(entry)
    _count(name + "#violations")
    # forked ParallelMap workers have their own copy of _STATE: also append to a file
    path = os.environ.get("VERIF_CONTRACT_LOG")
    if path and os.getpid() != _STATE.get("main_pid"):
        try:
            import json

            with open(path, "a") as f:
                f.write(json.dumps(entry, default=str) + "\n")
        except Exception:
            pass


def snapshot(counters=None):
    viol = list(_STATE["violations"])
    path = os.environ.get("VERIF_CONTRACT_LOG")
    if path and os.path.exists(path):
        import json

        with open(path) as f:
            for line in f:
                try:
                    viol.append(json.loads(line))
                except Exception:
                    pass
    return {"counters": dict(_STATE["counters"]), "violations": viol[:400]}


def install(spec=None):
    if _STATE.get("installed"):
        return _STATE
    _STATE["installed"] = True
    _STATE["main_pid"] = os.getpid()
    from . import contracts_impl

    contracts_impl.install_all(_count, _violate)
    if spec and spec.get("inject_delays"):
        contracts_impl.install_delays(spec["inject_delays"])
    return _STATE
