"""Online contracts installed on hypnotoad's real functions from the harness.

install(spec) patches module attributes (in every module that binds the name) with
wrappers that check a post-condition on every call made while the real grid generator
runs, and count their evaluations.  Violations are recorded, not raised, so that one
defect does not mask the rest; they end up in gen.json["contracts"].
"""

import functools
import math
import os

import numpy as np

_STATE = {"counters": {}, "violations": []}


def _count(name, n=1):
    _STATE["counters"][name] = _STATE["counters"].get(name, 0) + n


def _violate(name, detail):
    v = _STATE["violations"]
    if len(v) < 200:
        v.append({"contract": name, "detail": detail, "pid": os.getpid()})
    _count(name + "#violations")


def snapshot(counters=None):
    return {"counters": dict(_STATE["counters"]), "violations": list(_STATE["violations"])}


def install(spec=None):
    if _STATE.get("installed"):
        return _STATE
    _STATE["installed"] = True
    from . import contracts_impl

    contracts_impl.install_all(_count, _violate)
    if spec and spec.get("inject_delays"):
        contracts_impl.install_delays(spec["inject_delays"])
    return _STATE
