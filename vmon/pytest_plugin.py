"""pytest plugin: runs the repository's own tests with the online contracts installed.

    python -m pytest -p vmon.pytest_plugin ...   (VERIF_CONTRACT_OUT=<file> receives the counters)

A contract that fires while the pinned tests pass is either too strict or a defect the
tests do not assert - the job that uses this plugin reports every such violation."""

import json
import os


def pytest_sessionstart(session):
    from vmon import contracts

    contracts.install({})


def pytest_sessionfinish(session, exitstatus):
    from vmon import contracts

    out = os.environ.get("VERIF_CONTRACT_OUT")
    if out:
        snap = contracts.snapshot()
        path = "%s.%d" % (out, os.getpid())
        with open(path, "w") as f:
            json.dump(snap, f, default=str)
