"""Paths, interpreter set-up and content hashing shared by everything in vmon.

The repository under test is $VERIF_REPO (default /repo).  It is put FIRST on
sys.path so that a scratch (mutated) copy can be tested without touching the editable
install in /venv.  Third-party helpers that /venv lacks (sympy, icontract, jsonschema)
live in /verif/.deps, which is appended LAST so that /venv's numpy/scipy always win.
"""

import hashlib
import os
import subprocess
import sys

VERIF_ROOT = os.path.dirname(os.path.dirname(os.path.abspath(__file__)))
REPO = os.path.abspath(os.environ.get("VERIF_REPO", "/repo"))
PY = "/venv/bin/python"
DEPS = os.path.join(VERIF_ROOT, ".deps")
CACHE = os.environ.get("VERIF_CACHE", os.path.join(VERIF_ROOT, ".cache"))
WHEELS = "/opt/veriftools/wheels"
GUARD = "HYPNOTOAD_VERIF"

DEPS_PKGS = [
    "sympy",
    "mpmath",
    "icontract",
    "asttokens",
    "six",
    "jsonschema",
    "jsonschema_specifications",
    "referencing",
    "rpds_py",
    "attrs",
    "typing_extensions",
]


def setup_paths():
    if REPO in sys.path:
        sys.path.remove(REPO)
    sys.path.insert(0, REPO)
    if VERIF_ROOT not in sys.path:
        sys.path.insert(1, VERIF_ROOT)
    if DEPS not in sys.path:
        sys.path.append(DEPS)


def child_env(extra=None):
    env = dict(os.environ)
    env["PYTHONPATH"] = REPO + os.pathsep + VERIF_ROOT
    env["PYTHONHASHSEED"] = "0"
    env[GUARD] = "1"
    env["VERIF_REPO"] = REPO
    env["MPLBACKEND"] = "Agg"
    for k in ("OMP_NUM_THREADS", "OPENBLAS_NUM_THREADS", "MKL_NUM_THREADS"):
        env[k] = "1"
    env["PIP_NO_INDEX"] = "1"
    if extra:
        env.update(extra)
    return env


def ensure_deps(verbose=False):
    """Install the pure-python helper packages into .deps from the offline wheelhouse.

    A fresh restore only carries committed files, so every check calls this."""
    marker = os.path.join(DEPS, ".ok")
    if os.path.exists(marker):
        return True
    os.makedirs(DEPS, exist_ok=True)
    cmd = [
        PY,
        "-m",
        "pip",
        "install",
        "--no-index",
        "--find-links",
        WHEELS,
        "--no-deps",
        "--quiet",
        "--disable-pip-version-check",
        "--target",
        DEPS,
    ] + DEPS_PKGS
    r = subprocess.run(cmd, stdout=subprocess.PIPE, stderr=subprocess.STDOUT, text=True)
    if r.returncode != 0:
        if verbose:
            print(r.stdout)
        return False
    with open(marker, "w") as f:
        f.write("ok\n")
    return True


_HASH_DIRS = ["hypnotoad", "examples", "integrated_tests"]
_HASH_TOP = [".yaml", ".yml"]
_SKIP_DIRS = {"__pycache__", ".git", "test_suite"}


def repo_hash():
    """Content hash of everything in the repository that can influence a check."""
    h = hashlib.sha256()
    files = []
    for d in _HASH_DIRS:
        base = os.path.join(REPO, d)
        for root, dirs, names in os.walk(base):
            dirs[:] = sorted(x for x in dirs if x not in _SKIP_DIRS)
            for n in sorted(names):
                if n.endswith((".pyc", ".nc", ".png")):
                    continue
                files.append(os.path.join(root, n))
    for n in sorted(os.listdir(REPO)):
        if n.endswith(tuple(_HASH_TOP)):
            files.append(os.path.join(REPO, n))
    for p in files:
        h.update(os.path.relpath(p, REPO).encode())
        try:
            with open(p, "rb") as f:
                h.update(f.read())
        except OSError:
            h.update(b"<unreadable>")
    return h.hexdigest()[:20]


def code_hash(paths):
    h = hashlib.sha256()
    for p in sorted(paths):
        with open(p, "rb") as f:
            h.update(p.encode())
            h.update(f.read())
    return h.hexdigest()[:16]
