"""Independent oracles: finite differences of the interpolant, projection onto a flux
surface, arc length, field-line integral, grad(psi) integral curves.

None of these use hypnotoad's FineContour, its derivative functions, or its
integrators; they only evaluate eq.psi (taken as given, see DESIGN.md 2.3).
"""

import numpy as np


def length_scale(eq):
    if hasattr(eq, "Rmax"):
        L = max(float(eq.Rmax - eq.Rmin), float(eq.Zmax - eq.Zmin))
        if np.isfinite(L) and L > 0:
            return L
    # an analytic equilibrium has no data box: use the extent of its wall
    w = getattr(eq, "wall", None)
    if w:
        Rw = np.array([p.R for p in w])
        Zw = np.array([p.Z for p in w])
        L = max(float(Rw.max() - Rw.min()), float(Zw.max() - Zw.min()))
        if np.isfinite(L) and L > 0:
            return L
    return 1.0


def fd_grad(psi, R, Z, h=1e-4):
    """Richardson-extrapolated central differences (h, h/2) of psi -> (dpsi/dR, dpsi/dZ)."""
    R = np.asarray(R, float)
    Z = np.asarray(Z, float)

    def d(h):
        return (
            (psi(R + h, Z) - psi(R - h, Z)) / (2 * h),
            (psi(R, Z + h) - psi(R, Z - h)) / (2 * h),
        )

    a = d(h)
    b = d(h / 2)
    return (4 * b[0] - a[0]) / 3, (4 * b[1] - a[1]) / 3


def fd_hess(psi, R, Z, h=2e-4):
    R = np.asarray(R, float)
    Z = np.asarray(Z, float)

    def d2(h):
        p0 = psi(R, Z)
        rr = (psi(R + h, Z) - 2 * p0 + psi(R - h, Z)) / h**2
        zz = (psi(R, Z + h) - 2 * p0 + psi(R, Z - h)) / h**2
        rz = (psi(R + h, Z + h) - psi(R + h, Z - h) - psi(R - h, Z + h) + psi(R - h, Z - h)) / (4 * h**2)
        return rr, rz, zz

    a = d2(h)
    b = d2(h / 2)
    return tuple((4 * y - x) / 3 for x, y in zip(a, b))


def fd_scalar(fun, R, Z, h=1e-4):
    """Richardson central differences of a scalar function fun(R,Z)."""
    return fd_grad(fun, R, Z, h)


def project(psi, R, Z, target, its=8):
    """Newton along grad(psi) onto psi = target."""
    R = np.array(R, float)
    Z = np.array(Z, float)
    for _ in range(its):
        p = psi(R, Z) - target
        gR, gZ = fd_grad(psi, R, Z)
        g2 = gR**2 + gZ**2
        g2 = np.where(g2 == 0, 1.0, g2)
        R = R - p * gR / g2
        Z = Z - p * gZ / g2
    return R, Z


def refine_poly(psi, R, Z, target, levels):
    R = np.array(R, float)
    Z = np.array(Z, float)
    for _ in range(levels):
        Rm = 0.5 * (R[1:] + R[:-1])
        Zm = 0.5 * (Z[1:] + Z[:-1])
        Rm, Zm = project(psi, Rm, Zm, target, its=5)
        Rn = np.empty(2 * len(R) - 1)
        Zn = np.empty(2 * len(R) - 1)
        Rn[0::2] = R
        Rn[1::2] = Rm
        Zn[0::2] = Z
        Zn[1::2] = Zm
        R, Z = Rn, Zn
    return R, Z


def arclen_segments(psi, R, Z, target, levels=5):
    """Arc length of the flux surface psi=target between consecutive points of the
    ordered list (R,Z): every segment is refined by repeated midpoint insertion +
    projection, and the polyline length is Richardson-extrapolated.  Returns an array
    of len(R)-1 segment lengths."""
    Rr, Zr = refine_poly(psi, R, Z, target, levels)
    n = len(R) - 1
    m = 2**levels
    ds = np.hypot(np.diff(Rr), np.diff(Zr))
    L1 = ds.reshape(n, m).sum(axis=1)
    Rc, Zc = Rr[::2], Zr[::2]
    ds2 = np.hypot(np.diff(Rc), np.diff(Zc))
    L2 = ds2.reshape(n, m // 2).sum(axis=1)
    return L1 + (L1 - L2) / 3.0


def fieldline_segments(psi, nu, R, Z, target, levels=5):
    """Integral of nu(R,Z) ds along psi=target between consecutive points.
    Trapezoid on the refined polyline at two levels + Richardson."""
    Rr, Zr = refine_poly(psi, R, Z, target, levels)
    n = len(R) - 1
    m = 2**levels
    f = nu(Rr, Zr)
    ds = np.hypot(np.diff(Rr), np.diff(Zr))
    T1 = (0.5 * (f[1:] + f[:-1]) * ds).reshape(n, m).sum(axis=1)
    Rc, Zc, fc = Rr[::2], Zr[::2], f[::2]
    ds2 = np.hypot(np.diff(Rc), np.diff(Zc))
    T2 = (0.5 * (fc[1:] + fc[:-1]) * ds2).reshape(n, m // 2).sum(axis=1)
    return T1 + (T1 - T2) / 3.0


def gradcurve(psi, R0, Z0, psi_targets, rtol=1e-11, atol=1e-13):
    """Integral curve of grad(psi)/|grad psi|^2 through (R0,Z0), parametrised by psi,
    evaluated at psi_targets (monotone, starting from psi(R0,Z0))."""
    from scipy.integrate import solve_ivp

    def f(p, x):
        gR, gZ = fd_grad(psi, x[0], x[1])
        g2 = gR**2 + gZ**2
        return [gR / g2, gZ / g2]

    p0 = float(psi(R0, Z0))
    psi_targets = np.asarray(psi_targets, float)
    if len(psi_targets) == 0:
        return np.zeros((0, 2))
    sol = solve_ivp(f, (p0, float(psi_targets[-1])), [float(R0), float(Z0)], t_eval=psi_targets, method="DOP853", rtol=rtol, atol=atol)
    if not sol.success or sol.y.shape[1] != len(psi_targets):
        raise RuntimeError("gradcurve failed: " + str(sol.message))
    return sol.y.T


def region_kind(region):
    """coverage class of a MeshRegion: core / sol / pfr / inter and open/closed."""
    eqr = region.equilibriumRegion
    name = eqr.name
    inside = region.radialIndex < eqr.separatrix_radial_index
    if "core" in name:
        return "core" if inside else "sol_main"
    return "pfr" if inside else "sol_leg"
